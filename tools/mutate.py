#!/usr/bin/env python3
"""Sensitivity testing (DESIGN.md §6): apply one textual mutant at a time to a scratch copy of /repo,
confirm it builds and passes the package's existing tests, then run the property's check against it.

  tools/mutate.py C18 [name-regex] [--tier quick] [--no-unit]

Mutants live in /verif/mutants/<ID>.json: [{"name","file","old","new","count"?,"pkgs"?}].
Results are appended to /verif/mutants/results/<ID>.json. Scratch copies are removed immediately.
"""
import json, os, re, shutil, subprocess, sys, tempfile, time

ROOT = os.path.dirname(os.path.dirname(os.path.abspath(__file__)))

def env():
    e = dict(os.environ); e["GOFLAGS"] = "-mod=mod"; e["GOPROXY"] = "off"; e["GOTOOLCHAIN"] = "auto"; e.pop("GOSUMDB", None)
    return e

def main():
    args = [a for a in sys.argv[1:] if not a.startswith("--")]
    flags = [a for a in sys.argv[1:] if a.startswith("--")]
    pid = args[0]; pat = args[1] if len(args) > 1 else "."
    tier = "quick"
    for f in flags:
        if f.startswith("--tier="): tier = f.split("=", 1)[1]
    muts = json.load(open(os.path.join(ROOT, "mutants", pid + ".json")))
    os.makedirs(os.path.join(ROOT, "mutants", "results"), exist_ok=True)
    resp = os.path.join(ROOT, "mutants", "results", pid + ".json")
    results = json.load(open(resp)) if os.path.exists(resp) else {}
    for m in muts:
        if not re.search(pat, m["name"]): continue
        scratch = tempfile.mkdtemp(prefix="vmut-", dir=os.environ.get("TMPDIR", "/tmp"))
        try:
            subprocess.check_call(["rsync", "-a", "--exclude", ".git", "/repo/", scratch + "/"])
            edits = m.get("edits") or [m]
            bad = False
            for ed in edits:
                p = os.path.join(scratch, ed["file"]); src = open(p).read()
                cnt = src.count(ed["old"])
                if cnt != ed.get("count", 1):
                    print("MUTANT %s: 'old' occurs %d times in %s (want %d)" % (m["name"], cnt, ed["file"], ed.get("count", 1))); bad = True; break
                open(p, "w").write(src.replace(ed["old"], ed["new"]))
            if bad:
                results[m["name"]] = {"status": "invalid-pattern"}; continue
            status = None
            if "--no-unit" not in flags:
                pkgs = m.get("pkgs") or sorted({"./" + os.path.dirname(ed["file"]) if os.path.dirname(ed["file"]) else "." for ed in edits})
                r = subprocess.run(["go", "test", "-vet=off", "-count=1"] + pkgs, cwd=scratch, env=env(), stdout=subprocess.PIPE, stderr=subprocess.STDOUT, text=True)
                if r.returncode != 0:
                    # the two always-failing baseline tests live in pcapgo; tolerate only those
                    fails = re.findall(r"^--- FAIL: (\S+)", r.stdout, re.M)
                    if not fails or any(not f.startswith("TestEthernetHandle_Close") for f in fails):
                        print("MUTANT %s: existing tests fail or build broken -> not realistic\n%s" % (m["name"], r.stdout[-1500:]))
                        results[m["name"]] = {"status": "unit-tests-fail"}; continue
            t0 = time.time()
            e = env(); e["VERIF_REPO"] = scratch
            r = subprocess.run([os.path.join(ROOT, "check"), pid, "--tier", tier], env=e, stdout=subprocess.PIPE, stderr=subprocess.PIPE, text=True, timeout=1500)
            status = {0: "SURVIVED", 1: "killed", 2: "inconclusive"}.get(r.returncode, "rc%d" % r.returncode)
            viol = [l for l in r.stdout.splitlines() if l.startswith("VIOLATION")]
            keys = re.findall(r"key=(\S+)", r.stderr)
            print("MUTANT %-40s %s %.0fs %s" % (m["name"], status, time.time() - t0, " ".join(sorted(set(keys)))[:200]))
            if status != "killed":
                print(r.stderr[-1500:])
            results[m["name"]] = {"status": status, "keys": sorted(set(keys))[:10], "wall_s": round(time.time() - t0, 1), "tier": tier}
        finally:
            shutil.rmtree(scratch, ignore_errors=True)
            json.dump(results, open(resp, "w"), indent=1, sort_keys=True)
    # evidence was overwritten by the mutant runs; the caller re-runs the check on /repo before committing

if __name__ == "__main__":
    main()
