#!/usr/bin/env python3
import json,sys
r=json.load(open(sys.argv[1])); print(r.get('key'), '|', r.get('msg'))
c=r['case']
for k,v in c.items():
    if k!='ops': print(k, json.dumps(v))
for i,o in enumerate(c.get('ops',[])): print(i, json.dumps(o))
