#!/usr/bin/env python3
"""Seeded changes (DESIGN.md §9.5): realistic property-breaking changes written by independent agents.

  tools/seeded.py import <ID> <worktree> [name]   copy patch + demonstration from a scratch worktree into /verif/seeded/<name>/
  tools/seeded.py run <name> [--tier quick|thorough] [--props C09,C11]
        apply seeded/<name>/patch.diff to a scratch copy of /repo (outside /repo and /verif, removed afterwards),
        confirm: it builds, the existing tests of the touched packages pass, the demonstration fails there and
        passes on /repo; then run the check(s) against the copy (VERIF_REPO) and record who caught it.
"""
import json, os, re, shutil, subprocess, sys, tempfile, time

ROOT = os.path.dirname(os.path.dirname(os.path.abspath(__file__)))
SEEDED = os.path.join(ROOT, "seeded")


def env():
    e = dict(os.environ); e["GOFLAGS"] = "-mod=mod"; e["GOPROXY"] = "off"; e["GOTOOLCHAIN"] = "auto"; e.pop("GOSUMDB", None)
    return e


def sh(cmd, cwd=None, timeout=1800, extra_env=None):
    e = env()
    if extra_env:
        e.update(extra_env)
    r = subprocess.run(cmd, cwd=cwd, env=e, stdout=subprocess.PIPE, stderr=subprocess.STDOUT, text=True, timeout=timeout)
    return r.returncode, r.stdout


def do_import(pid, wt, name):
    d = os.path.join(SEEDED, name)
    os.makedirs(d, exist_ok=True)
    rc, diff = sh(["git", "-C", wt, "diff"])
    open(os.path.join(d, "patch.diff"), "w").write(diff)
    rc, files = sh(["git", "-C", wt, "ls-files", "--others", "--exclude-standard"])
    demos = [f for f in files.split() if f.endswith("_test.go")]
    for f in demos:
        shutil.copy(os.path.join(wt, f), os.path.join(d, "demo__" + f.replace("/", "__")))
    if os.path.exists(os.path.join(wt, "SEEDED.md")):
        shutil.copy(os.path.join(wt, "SEEDED.md"), os.path.join(d, "demonstration.md"))
    touched = sorted(set(re.findall(r"^\+\+\+ b/(\S+)", diff, re.M)))
    meta = {"property": pid, "name": name, "files": touched, "demo_files": demos,
            "base_commit": sh(["git", "-C", wt, "rev-parse", "HEAD"])[1].strip()}
    json.dump(meta, open(os.path.join(d, "meta.json"), "w"), indent=1)
    print("imported", name, touched, demos)


def do_run(name, tier, props):
    d = os.path.join(SEEDED, name)
    meta = json.load(open(os.path.join(d, "meta.json")))
    props = props or [meta["property"]]
    scratch = tempfile.mkdtemp(prefix="vseed-", dir=os.environ.get("TMPDIR", "/tmp"))
    res = {"tier": tier, "at": time.strftime("%Y-%m-%dT%H:%M:%SZ", time.gmtime()), "checks": {}}
    try:
        subprocess.check_call(["rsync", "-a", "--exclude", ".git", "/repo/", scratch + "/"])
        rc, out = sh(["git", "apply", "--unsafe-paths", "--directory=" + scratch, os.path.join(d, "patch.diff")], cwd="/")
        if rc != 0:
            # fall back to patch(1)
            rc, out = sh(["patch", "-p1", "-i", os.path.join(d, "patch.diff")], cwd=scratch)
        res["applies"] = rc == 0
        if rc != 0:
            print("patch does not apply:\n" + out[-2000:]); res["error"] = out[-500:]
            return res
        pkgs = sorted({"./" + os.path.dirname(f) if os.path.dirname(f) else "." for f in meta["files"]})
        rc, out = sh(["go", "test", "-vet=off", "-count=1"] + pkgs, cwd=scratch)
        fails = re.findall(r"^--- FAIL: (\S+)", out, re.M)
        res["unit_tests_pass"] = rc == 0 or (fails and all(f.startswith("TestEthernetHandle_Close") for f in fails))
        if not res["unit_tests_pass"]:
            print("existing tests fail with the patch:\n" + out[-1500:])
        # demonstration: fails on the patched copy, passes on /repo (copied into a second scratch so /repo stays clean)
        demo = {}
        for f in meta.get("demo_files", []):
            src = os.path.join(d, "demo__" + f.replace("/", "__"))
            pkg = "./" + os.path.dirname(f)
            race = ["-race"] if re.search(r"-race", open(os.path.join(d, "demonstration.md")).read() if os.path.exists(os.path.join(d, "demonstration.md")) else "") else []
            shutil.copy(src, os.path.join(scratch, f))
            names = re.findall(r"^func (Test\w+)\(", open(src).read(), re.M)
            runpat = "^(" + "|".join(names) + ")$" if names else "TestSeededDemo"
            rc1, o1 = sh(["go", "test", "-vet=off", "-count=1", "-run", runpat, "-timeout", "300s"] + race + [pkg], cwd=scratch, timeout=900)
            os.remove(os.path.join(scratch, f))
            clean = tempfile.mkdtemp(prefix="vseedc-", dir=os.environ.get("TMPDIR", "/tmp"))
            try:
                subprocess.check_call(["rsync", "-a", "--exclude", ".git", "/repo/", clean + "/"])
                shutil.copy(src, os.path.join(clean, f))
                rc0, o0 = sh(["go", "test", "-vet=off", "-count=1", "-run", runpat, "-timeout", "300s"] + race + [pkg], cwd=clean, timeout=900)
            finally:
                shutil.rmtree(clean, ignore_errors=True)
            demo[f] = {"fails_on_patched": rc1 != 0, "passes_on_repo": rc0 == 0}
            if rc1 == 0 or rc0 != 0:
                print("demo %s: patched rc=%d, repo rc=%d\n%s\n%s" % (f, rc1, rc0, o1[-800:], o0[-800:]))
        res["demo"] = demo
        for pid in props:
            t0 = time.time()
            rc, out = sh([os.path.join(ROOT, "check"), pid, "--tier", tier], extra_env={"VERIF_REPO": scratch}, timeout=6000)
            viol = [l for l in out.splitlines() if l.startswith("VIOLATION")]
            keys = sorted(set(re.findall(r"key=(\S+)", out)))
            res["checks"][pid] = {"rc": rc, "caught": rc == 1 and bool(viol), "violations": viol[:5], "keys": keys[:8], "wall_s": round(time.time() - t0, 1)}
            print("SEEDED %-28s %s %s rc=%d %.0fs %s" % (name, pid, "CAUGHT" if rc == 1 and viol else "MISSED" if rc == 0 else "INCONCLUSIVE", rc, time.time() - t0, " ".join(keys)[:160]))
    finally:
        shutil.rmtree(scratch, ignore_errors=True)
        rp = os.path.join(d, "result.json")
        allr = json.load(open(rp)) if os.path.exists(rp) else {}
        allr.setdefault(tier, {}).update(res.get("checks", {}))
        for k in ("applies", "unit_tests_pass", "demo"):
            if k in res:
                allr[k] = res[k]
        json.dump(allr, open(rp, "w"), indent=1, sort_keys=True)
    return res


if __name__ == "__main__":
    if sys.argv[1] == "import":
        pid, wt = sys.argv[2], sys.argv[3]
        do_import(pid, wt, sys.argv[4] if len(sys.argv) > 4 else pid + "-a")
    elif sys.argv[1] == "run":
        tier, props = "quick", None
        for a in sys.argv[3:]:
            if a.startswith("--tier"):
                tier = a.split("=", 1)[1]
            if a.startswith("--props"):
                props = a.split("=", 1)[1].split(",")
        do_run(sys.argv[2], tier, props)
