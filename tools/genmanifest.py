#!/usr/bin/env python3
"""Regenerates /verif/MANIFEST.json from plans/<ID>.json (each plan carries a "manifest" section)."""
import json, os, subprocess
ROOT = os.path.dirname(os.path.dirname(os.path.abspath(__file__)))
props = [json.loads(l) for l in open(os.path.join(ROOT, "properties.jsonl"))]
hooks_commits = []
hp = os.path.join(ROOT, "plans", "hooks.json")
hooks_extra = json.load(open(hp)) if os.path.exists(hp) else {}
checks, na = [], []
for p in props:
    pid = p["id"]
    pp = os.path.join(ROOT, "plans", pid + ".json")
    if not os.path.exists(pp):
        na.append({"property_id": pid, "reason": "check not built yet in this session (planned in DESIGN.md section 5); not claimed until its check runs clean on the unchanged tree"})
        continue
    plan = json.load(open(pp))
    m = plan["manifest"]
    c = {
        "property_id": pid,
        "quick_cmd": "./check %s --tier quick" % pid,
        "thorough_cmd": "./check %s --tier thorough" % pid,
        "evidence_file": "/verif/evidence/%s.json" % pid,
        "replay_cmd_template": "./check %s --replay {path}" % pid,
        "engine": "rapid-harness",
        "level_claimed": {"category": plan.get("level", "exploration"), "text": m["level_text"], "design_ref": "DESIGN.md §5 " + pid},
        "level_note": m["level_note"],
        "technique": m["technique"],
    }
    checks.append(c)
man = {
    "version": 1,
    "setup_cmd": "./setup.sh",
    "hooks": {
        "guard": "verif",
        "enable": "go build tag: the ./check driver builds every test binary with `go test -tags verif`",
        "baseline_off_cmd": "cd /repo && GOFLAGS=-mod=mod GOPROXY=off go test -vet=off -count=1 ./...",
        "source_commits": hooks_extra.get("source_commits", []),
        "add_only": True,
    },
    "engines": [{"name": "rapid-harness", "path": "harness/", "serves_properties": [c["property_id"] for c in checks],
                 "kind_free_text": "Go test packages: pgregory.net/rapid v1.3.0 generators and state machines, testing/synctest, go -race, native go fuzzing (thorough only); explicit oracles (reference models, round-trips, differentials); ./check shards jobs, merges evidence, classifies known findings"}],
    "checks": checks,
    "notes": "Design: DESIGN.md. Known findings: known_findings.txt. Every check: ./check <ID> --tier quick|thorough; exit 0/1/2(inconclusive).",
    "not_applicable": na,
}
json.dump(man, open(os.path.join(ROOT, "MANIFEST.json"), "w"), indent=1)
print("checks:", [c["property_id"] for c in checks], "na:", [n["property_id"] for n in na])
