#!/usr/bin/env python3
"""Regenerates the mutant and seeded-change tables inside DESIGN.md (between the marker comments)."""
import glob, json, os, re

ROOT = os.path.dirname(os.path.dirname(os.path.abspath(__file__)))


def mutants():
    rows = ["| prop | mutants | killed by quick | not realistic (existing tests fail) | other |", "|---|---|---|---|---|"]
    for f in sorted(glob.glob(os.path.join(ROOT, "mutants", "C*.json"))):
        pid = os.path.basename(f)[:-5]
        ms = json.load(open(f))
        rp = os.path.join(ROOT, "mutants", "results", pid + ".json")
        res = json.load(open(rp)) if os.path.exists(rp) else {}
        k = [m["name"] for m in ms if res.get(m["name"], {}).get("status") == "killed"]
        u = [m["name"] for m in ms if res.get(m["name"], {}).get("status") == "unit-tests-fail"]
        o = ["%s (%s)" % (m["name"], res.get(m["name"], {}).get("status", "not run")) for m in ms
             if res.get(m["name"], {}).get("status") not in ("killed", "unit-tests-fail")]
        rows.append("| %s | %d | %d | %d | %s |" % (pid, len(ms), len(k), len(u), ", ".join(o) or "—"))
    return "\n".join(rows)


def seeded():
    rows = ["| seeded change | property | what it breaks (files) | existing tests | demonstration | quick | thorough | note |", "|---|---|---|---|---|---|---|---|"]
    for d in sorted(glob.glob(os.path.join(ROOT, "seeded", "*"))):
        mp = os.path.join(d, "meta.json")
        if not os.path.exists(mp):
            continue
        meta = json.load(open(mp))
        rp = os.path.join(d, "result.json")
        res = json.load(open(rp)) if os.path.exists(rp) else {}

        def tier(t):
            out = []
            for pid, r in sorted(res.get(t, {}).items()):
                out.append("%s %s%s" % (pid, "**caught**" if r.get("caught") else ("missed" if r.get("rc") == 0 else "inconclusive"),
                                        (" (" + ", ".join(r.get("keys", [])[:2]) + ")") if r.get("caught") else ""))
            return "; ".join(out) or "—"
        demo = res.get("demo", {})
        dem = "ok" if demo and all(v["fails_on_patched"] and v["passes_on_repo"] for v in demo.values()) else ("—" if not demo else "NOT confirmed")
        rows.append("| %s | %s | %s: %s | %s | %s | %s | %s | %s |" % (meta["name"], meta["property"], meta.get("summary", ""), ", ".join(meta["files"]),
                    "pass" if res.get("unit_tests_pass") else "?", dem, tier("quick"), tier("thorough"), meta.get("note", "")))
    return "\n".join(rows)


p = os.path.join(ROOT, "DESIGN.md")
s = open(p).read()
for tag, fn in (("MUTANTS", mutants), ("SEEDED", seeded)):
    b, e = "<!-- %s:BEGIN -->" % tag, "<!-- %s:END -->" % tag
    block = b + "\n" + fn() + "\n" + e
    if b in s:
        s = re.sub(re.escape(b) + r".*?" + re.escape(e), lambda m: block, s, flags=re.S)
    else:
        s = s.replace({"MUTANTS": "MUTANT-TABLE", "SEEDED": "SEEDED-TABLE"}[tag], block)
open(p, "w").write(s)
