// Package c08 checks property C08: written checksums are correct; verification accepts exactly
// the correct ones (DESIGN.md §5 C08). Oracle: independent RFC 1071 reference (internal/ref).
package c08

import (
	"encoding/binary"
	"encoding/json"
	"fmt"
	"math/big"
	"net"
	"testing"

	"github.com/gopacket/gopacket"
	"github.com/gopacket/gopacket/layers"
	"pgregory.net/rapid"

	"verifharness/internal/ref"
	"verifharness/internal/vh"
)

var S = vh.New("C08")

func TestMain(m *testing.M) { vh.Main(m, S) }

// ---------- helpers: FoldChecksum / ComputeChecksum ----------

func refFold32(v uint32) uint16 { return ^ref.FoldBig(new(big.Int).SetUint64(uint64(v))) }

type FoldCase struct {
	V uint32 `json:"v"`
}

func runFold(c *FoldCase) *vh.Failure {
	if got, want := gopacket.FoldChecksum(c.V), refFold32(c.V); got != want {
		return vh.Failf("FoldChecksum", "FoldChecksum(%#x)=%#04x, RFC 1071 reference %#04x", c.V, got, want)
	}
	return nil
}

// fast reference for the exhaustive sweep (validated against the big-int one on the stratified set)
func fastFold(v uint32) uint16 {
	s := uint64(v)
	s = (s & 0xffff) + (s >> 16)
	s = (s & 0xffff) + (s >> 16)
	return ^uint16(s)
}

// TestFold: stratified in quick, all 2^32 values in thorough (sharded).
func TestFold(t *testing.T) {
	edge := []uint32{0, 1, 2, 0xfffe, 0xffff, 0x10000, 0x7fff, 0x8000}
	n := int64(0)
	check := func(v uint32, nt bool) bool {
		n++
		c := &FoldCase{v}
		f := runFold(c)
		if fastFold(v) != refFold32(v) {
			t.Fatalf("harness: fast reference disagrees with big reference at %#x", v)
		}
		S.Note(uint64(v), nt, "fold")
		if f != nil {
			S.Check(t, "TestFold", c, f)
			return false
		}
		return true
	}
	for _, hi := range edge {
		for lo := uint32(0); lo <= 0xffff; lo++ {
			if !check((hi&0xffff)<<16|lo, true) || !check(lo<<16|(hi&0xffff), true) {
				return
			}
		}
	}
	// 2^20 stratified values (multiplicative stride hits every high-half/low-half residue)
	for i := uint32(0); i < 1<<20; i++ {
		if !check(i*4093+i>>7, i%65521 == 0) {
			return
		}
	}
	if vh.Thorough() {
		sh, nsh := vh.Shard()
		lo := uint64(sh) * (1 << 32) / uint64(nsh)
		hi := uint64(sh+1) * (1 << 32) / uint64(nsh)
		for v := lo; v < hi; v++ {
			if got := gopacket.FoldChecksum(uint32(v)); got != fastFold(uint32(v)) {
				S.Check(t, "TestFold", &FoldCase{uint32(v)}, vh.Failf("FoldChecksum", "FoldChecksum(%#x)=%#04x want %#04x", v, got, fastFold(uint32(v))))
				return
			}
		}
		S.Extra("fold_exhaustive_values_total", int64(hi-lo))
		S.Extra("exhaustive", true)
		S.Class("fold-exhaustive-range", int64(hi-lo))
	}
	S.Sample(map[string]any{"kind": "fold", "values_checked": n, "example": "0xfffe0002"})
}

type SumCase struct {
	Data    []byte `json:"data,omitempty"`
	FillLen int    `json:"fill_len,omitempty"` // if >0: FillLen bytes of Fill instead of Data
	Fill    byte   `json:"fill,omitempty"`
	Init    uint32 `json:"init"`
}

func (c *SumCase) bytes() []byte {
	if c.FillLen > 0 {
		b := make([]byte, c.FillLen)
		for i := range b {
			b[i] = c.Fill
		}
		return b
	}
	return c.Data
}

// exact integer value of init + sum of words
func exactSum(data []byte, init uint32) *big.Int {
	s := new(big.Int).SetUint64(uint64(init))
	for i := 0; i+1 < len(data); i += 2 {
		s.Add(s, big.NewInt(int64(data[i])<<8|int64(data[i+1])))
	}
	if len(data)%2 == 1 {
		s.Add(s, big.NewInt(int64(data[len(data)-1])<<8))
	}
	return s
}

func runSum(c *SumCase) (*vh.Failure, bool) {
	data := c.bytes()
	before := append([]byte(nil), data...)
	got := gopacket.ComputeChecksum(data, c.Init)
	if string(before) != string(data) {
		return vh.Failf("ComputeChecksum:writes-input", "input modified"), false
	}
	ex := exactSum(data, c.Init)
	overflow := ex.BitLen() > 32
	wantFold := ^ref.FoldBig(ex)
	if gopacket.FoldChecksum(got) != wantFold {
		key := "ComputeChecksum:sum"
		if overflow {
			key = "ComputeChecksum:overflow"
		}
		return vh.Failf(key, "len=%d init=%#x: Fold(ComputeChecksum)=%#04x, RFC 1071 reference %#04x (exact sum has %d bits)", len(data), c.Init, gopacket.FoldChecksum(got), wantFold, ex.BitLen()), overflow
	}
	if !overflow && uint64(got) != ex.Uint64() {
		return vh.Failf("ComputeChecksum:accumulator", "len=%d init=%#x: accumulator %#x, exact sum %#x", len(data), c.Init, got, ex.Uint64()), overflow
	}
	return nil, overflow
}

func TestSum(t *testing.T) {
	// every length 0..129 deterministically first
	for n := 0; n <= 129; n++ {
		for _, fill := range []byte{0x00, 0xff, 0x80, 0x01} {
			c := &SumCase{FillLen: n, Fill: fill}
			if n == 0 {
				c = &SumCase{Data: []byte{}}
			}
			f, _ := runSum(c)
			S.Note(vh.Hash64("fill", n, fill), n%2 == 1, "sum-short")
			S.Check(t, "TestSum", c, f)
		}
	}
	rapid.Check(t, func(rt *rapid.T) {
		c := &SumCase{}
		switch rapid.IntRange(0, 9).Draw(rt, "kind") {
		case 0: // long constant fill, up to 512 KiB (overflow region for 0xff beyond 128 KiB)
			c.FillLen = rapid.IntRange(1, 512*1024).Draw(rt, "filllen")
			c.Fill = rapid.SampledFrom([]byte{0xff, 0xff, 0x7f, 0x01}).Draw(rt, "fill")
		case 1: // around the accumulator limit
			c.FillLen = 131070 + rapid.IntRange(-6, 6).Draw(rt, "d")
			c.Fill = 0xff
		case 2:
			c.Data = rapid.SliceOfN(rapid.Byte(), 0, 70*1024).Draw(rt, "data")
		default:
			c.Data = rapid.SliceOfN(rapid.Byte(), 0, 300).Draw(rt, "data")
		}
		switch rapid.IntRange(0, 5).Draw(rt, "ik") {
		case 0:
			c.Init = rapid.Uint32().Draw(rt, "init")
		case 1:
			c.Init = 0
		default:
			c.Init = rapid.Uint32Range(0, 0x5fffa).Draw(rt, "init") // what a pseudo-header can produce
		}
		f, overflow := runSum(c)
		cls := "sum-fits-accumulator"
		if overflow {
			cls = "sum-overflows-accumulator"
		}
		n := len(c.bytes())
		S.Note(vh.Hash64(c.bytes(), c.Init), n%2 == 1 || n > 65536, cls)
		if n%2 == 1 && n < 40 && S.WantSample() {
			S.Sample(map[string]any{"kind": "sum", "case": c})
		}
		S.Check(rt, "TestSum", c, f)
	})
}

// ---------- packets ----------

type TCPOpt struct {
	Kind byte   `json:"kind"`
	Data []byte `json:"data,omitempty"`
}

type PktCase struct {
	V6      bool     `json:"v6"`
	L4      string   `json:"l4"` // tcp udp icmp4 icmp6 gre none
	Src     []byte   `json:"src"`
	Dst     []byte   `json:"dst"`
	IPOpts  []byte   `json:"ip_opts,omitempty"` // raw option area content expressed as NOP-count or one option
	IPOptT  byte     `json:"ip_opt_type,omitempty"`
	IPPad   []byte   `json:"ip_pad,omitempty"` // explicit padding bytes behind the options (a decoded header keeps what followed the last option)
	ID      uint16   `json:"id"`
	TTL     byte     `json:"ttl"`
	TOS     byte     `json:"tos"`
	SPort   uint16   `json:"sport"`
	DPort   uint16   `json:"dport"`
	Seq     uint32   `json:"seq"`
	Ack     uint32   `json:"ack"`
	Win     uint16   `json:"win"`
	TCPOpts []TCPOpt `json:"tcp_opts,omitempty"`
	IType   byte     `json:"itype"`
	ICode   byte     `json:"icode"`
	GREKey  *uint32  `json:"gre_key,omitempty"`
	GRESeq  *uint32  `json:"gre_seq,omitempty"`
	GRECsum bool     `json:"gre_csum"`
	Payload []byte   `json:"payload"`
	Target  *uint16  `json:"target,omitempty"`   // solve payload[0:2] so the L4 checksum becomes this
	FlipBit *int     `json:"flip_bit,omitempty"` // index into the list of safe bit positions
}

var opts = gopacket.SerializeOptions{FixLengths: true, ComputeChecksums: true}

func optionBytes(ip *layers.IPv4) int {
	n := 0
	for _, o := range ip.Options {
		n += int(o.OptionLength)
	}
	return n
}

func (c *PktCase) build(payload []byte) ([]byte, error) {
	eth := &layers.Ethernet{SrcMAC: net.HardwareAddr{2, 0, 0, 0, 0, 1}, DstMAC: net.HardwareAddr{2, 0, 0, 0, 0, 2}}
	var ls []gopacket.SerializableLayer
	var nl gopacket.NetworkLayer
	proto := map[string]layers.IPProtocol{"tcp": layers.IPProtocolTCP, "udp": layers.IPProtocolUDP, "icmp4": layers.IPProtocolICMPv4, "icmp6": layers.IPProtocolICMPv6, "gre": layers.IPProtocolGRE, "none": 253}[c.L4]
	if c.V6 {
		eth.EthernetType = layers.EthernetTypeIPv6
		ip := &layers.IPv6{Version: 6, SrcIP: net.IP(c.Src), DstIP: net.IP(c.Dst), NextHeader: proto, HopLimit: c.TTL, TrafficClass: c.TOS}
		ls = append(ls, eth, ip)
		nl = ip
	} else {
		eth.EthernetType = layers.EthernetTypeIPv4
		ip := &layers.IPv4{Version: 4, SrcIP: net.IP(c.Src), DstIP: net.IP(c.Dst), Protocol: proto, TTL: c.TTL, TOS: c.TOS, Id: c.ID}
		if c.IPOptT == 1 {
			for range c.IPOpts {
				ip.Options = append(ip.Options, layers.IPv4Option{OptionType: 1, OptionLength: 1})
			}
		} else if c.IPOptT != 0 {
			ip.Options = append(ip.Options, layers.IPv4Option{OptionType: c.IPOptT, OptionLength: uint8(len(c.IPOpts) + 2), OptionData: c.IPOpts})
		}
		if n := optionBytes(ip) + 1; n%4 != 0 && n < 40 && len(c.IPPad) > 0 {
			// End-of-Option-List, then explicit padding: whatever bytes follow the end marker up to the 32 bit boundary
			ip.Options = append(ip.Options, layers.IPv4Option{OptionType: 0, OptionLength: 1})
			ip.Padding = append([]byte(nil), c.IPPad[:min(len(c.IPPad), 4-n%4)]...)
			for len(ip.Padding) < 4-n%4 {
				ip.Padding = append(ip.Padding, 0)
			}
		}
		ls = append(ls, eth, ip)
		nl = ip
	}
	switch c.L4 {
	case "tcp":
		t := &layers.TCP{SrcPort: layers.TCPPort(c.SPort), DstPort: layers.TCPPort(c.DPort), Seq: c.Seq, Ack: c.Ack, Window: c.Win, ACK: true, PSH: len(payload)%2 == 1}
		for _, o := range c.TCPOpts {
			if o.Kind <= 1 {
				t.Options = append(t.Options, layers.TCPOption{OptionType: layers.TCPOptionKind(o.Kind), OptionLength: 1})
			} else {
				t.Options = append(t.Options, layers.TCPOption{OptionType: layers.TCPOptionKind(o.Kind), OptionLength: uint8(len(o.Data) + 2), OptionData: o.Data})
			}
		}
		t.SetNetworkLayerForChecksum(nl)
		ls = append(ls, t)
	case "udp":
		u := &layers.UDP{SrcPort: layers.UDPPort(c.SPort), DstPort: layers.UDPPort(c.DPort)}
		u.SetNetworkLayerForChecksum(nl)
		ls = append(ls, u)
	case "icmp4":
		ls = append(ls, &layers.ICMPv4{TypeCode: layers.CreateICMPv4TypeCode(c.IType, c.ICode), Id: c.SPort, Seq: c.DPort})
	case "icmp6":
		i := &layers.ICMPv6{TypeCode: layers.CreateICMPv6TypeCode(c.IType, c.ICode)}
		i.SetNetworkLayerForChecksum(nl)
		ls = append(ls, i)
	case "gre":
		g := &layers.GRE{Protocol: 0x88b5, ChecksumPresent: c.GRECsum}
		if c.GREKey != nil {
			g.KeyPresent, g.Key = true, *c.GREKey
		}
		if c.GRESeq != nil {
			g.SeqPresent, g.Seq = true, *c.GRESeq
		}
		ls = append(ls, g)
	}
	ls = append(ls, gopacket.Payload(payload))
	buf := gopacket.NewSerializeBuffer()
	if err := gopacket.SerializeLayers(buf, opts, ls...); err != nil {
		return nil, err
	}
	return append([]byte(nil), buf.Bytes()...), nil
}

// layout derived from raw bytes by the harness (not from gopacket's decoders)
type layout struct {
	ipOff, ipHdrLen, l4Off, end int
	v6                          bool
	proto                       byte
	src, dst                    []byte
}

func parseLayout(b []byte) layout {
	var l layout
	l.ipOff = 14
	if b[12] == 0x86 && b[13] == 0xdd {
		l.v6 = true
		l.ipHdrLen = 40
		l.proto = b[14+6]
		l.src, l.dst = b[14+8:14+24], b[14+24:14+40]
		l.end = 14 + 40 + int(binary.BigEndian.Uint16(b[14+4:]))
	} else {
		l.ipHdrLen = int(b[14]&0x0f) * 4
		l.proto = b[14+9]
		l.src, l.dst = b[14+12:14+16], b[14+16:14+20]
		l.end = 14 + int(binary.BigEndian.Uint16(b[14+2:]))
	}
	if l.end > len(b) || l.end < 14 {
		l.end = len(b)
	}
	l.l4Off = l.ipOff + l.ipHdrLen
	return l
}

func csumOffset(l4 string) int {
	switch l4 {
	case "tcp":
		return 16
	case "udp":
		return 6
	case "icmp4", "icmp6":
		return 2
	case "gre":
		return 4
	}
	return -1
}

// refL4 computes the reference checksum of the L4 region b[l.l4Off:] (checksum field zeroed).
func refL4(b []byte, l layout, l4 string) uint16 {
	seg := append([]byte(nil), b[l.l4Off:l.end]...)
	o := csumOffset(l4)
	seg[o], seg[o+1] = 0, 0
	var pseudo []byte
	switch l4 {
	case "tcp", "udp", "icmp6":
		if l.v6 {
			pseudo = ref.PseudoV6(l.src, l.dst, l.proto, len(seg))
		} else {
			pseudo = ref.PseudoV4(l.src, l.dst, l.proto, len(seg))
		}
	}
	return ref.Checksum(pseudo, seg)
}

func refIPv4Hdr(b []byte, l layout) uint16 {
	h := append([]byte(nil), b[l.ipOff:l.ipOff+l.ipHdrLen]...)
	h[10], h[11] = 0, 0
	return ref.Checksum(h)
}

// onesEq: equal as one's-complement numbers (0x0000 and 0xffff both denote zero)
func onesEq(a, b uint16) bool {
	return a == b || (a == 0 || a == 0xffff) && (b == 0 || b == 0xffff)
}

// verifyAll applies oracle (4) to every checksum-bearing layer of the decoded packet:
// Valid <=> stored == reference over the region the decoded layer covers; Correct == reference.
func verifyAll(data []byte, produced bool) (*vh.Failure, map[string]bool) {
	seen := map[string]bool{}
	p := gopacket.NewPacket(data, layers.LayerTypeEthernet, gopacket.DecodeOptions{DecodeStreamsAsDatagrams: true})
	nl := p.NetworkLayer()
	for _, l := range p.Layers() {
		if x, ok := l.(interface {
			SetNetworkLayerForChecksum(gopacket.NetworkLayer) error
		}); ok && nl != nil {
			x.SetNetworkLayerForChecksum(nl)
		}
	}
	var pseudoFor = func(proto byte, n int) []byte {
		if nl == nil {
			return nil
		}
		h := nl.LayerContents()
		switch nl.LayerType() {
		case layers.LayerTypeIPv4:
			return ref.PseudoV4(h[12:16], h[16:20], proto, n)
		case layers.LayerTypeIPv6:
			return ref.PseudoV6(h[8:24], h[24:40], proto, n)
		}
		return nil
	}
	for idx, l := range p.Layers() {
		lc, ok := l.(gopacket.LayerWithChecksum)
		if !ok || idx > 2 {
			// only the layers the harness built (Ethernet/IP/L4); whatever the payload happens to
			// decode as (possibly a half-decoded layer in front of a DecodeFailure) is not judged
			continue
		}
		region := append(append([]byte(nil), l.LayerContents()...), l.LayerPayload()...)
		var off int
		var pseudo []byte
		name := l.LayerType().String()
		exempt := false
		switch v := l.(type) {
		case *layers.IPv4:
			region = append([]byte(nil), l.LayerContents()...)
			off = 10
		case *layers.TCP:
			off, pseudo = 16, pseudoFor(6, len(region))
		case *layers.UDP:
			off, pseudo = 6, pseudoFor(17, len(region))
			exempt = v.Checksum == 0
		case *layers.ICMPv4:
			off = 2
		case *layers.ICMPv6:
			off, pseudo = 2, pseudoFor(58, len(region))
		case *layers.GRE:
			off = 4
			exempt = !v.ChecksumPresent
			if exempt {
				off = -1
			}
		default:
			continue // other checksum layers are outside this property's list
		}
		if nl == nil && (name == "TCP" || name == "UDP" || name == "ICMPv6") {
			continue
		}
		if nl != nil && nl.LayerType() == layers.LayerTypeIPv6 && idx > 2 {
			continue // extension headers in between: pseudo-header next-header rules not modelled
		}
		var stored uint16
		if off >= 0 {
			if len(region) < off+2 {
				continue
			}
			stored = binary.BigEndian.Uint16(region[off:])
			region[off], region[off+1] = 0, 0
		}
		want := ref.Checksum(pseudo, region)
		if name == "UDP" && want == 0 {
			want = 0xffff // RFC 768: zero is transmitted as all ones
		}
		err, res := lc.VerifyChecksum()
		if err != nil {
			return vh.Failf(name+":verify-error", "VerifyChecksum error: %v", err), seen
		}
		seen[name] = true
		if exempt {
			if !res.Valid {
				return vh.Failf(name+":4:exempt", "no-checksum packet reported invalid: %+v", res), seen
			}
			continue
		}
		if res.Actual != uint32(stored) {
			return vh.Failf(name+":4:actual", "Actual=%#x, stored checksum bytes %#04x", res.Actual, stored), seen
		}
		switch {
		case stored == want:
			if !res.Valid {
				return vh.Failf(name+":3:reject-correct", "stored checksum %#04x equals the reference but Valid=false (Correct=%#x)", stored, res.Correct), seen
			}
		case !onesEq(stored, want):
			if res.Valid {
				return vh.Failf(name+":4:accept-wrong", "stored %#04x, reference %#04x, but Valid=true", stored, want), seen
			}
		default:
			S.Class("ambiguous-zero-representation:"+name, 1) // 0x0000 vs 0xffff: not judged
			continue
		}
		if res.Correct != uint32(want) {
			if onesEq(uint16(res.Correct), want) && res.Correct <= 0xffff {
				S.Class("ambiguous-zero-representation-correct:"+name, 1)
				continue
			}
			return vh.Failf(name+":4:correct-value", "Correct=%#x, reference %#04x (stored %#04x)", res.Correct, want, stored), seen
		}
	}
	// the packet-level helper must agree with the per-layer calls
	err, mm := p.VerifyChecksums()
	if err == nil {
		for _, m := range mm {
			lc := m.Layer.(gopacket.LayerWithChecksum)
			if _, r := lc.VerifyChecksum(); r.Valid || r != m.ChecksumVerificationResult {
				return vh.Failf("Packet.VerifyChecksums:inconsistent", "mismatch list disagrees with layer %v", m.Layer.LayerType()), seen
			}
			if m.LayerIndex < 0 || m.LayerIndex >= len(p.Layers()) || p.Layers()[m.LayerIndex] != m.Layer {
				return vh.Failf("Packet.VerifyChecksums:index", "LayerIndex %d does not point at the layer", m.LayerIndex), seen
			}
		}
		for _, m := range mm {
			if produced && m.LayerIndex <= 2 {
				return vh.Failf("Packet.VerifyChecksums:3:reject-produced", "library-produced packet has a mismatch at layer %d: %+v", m.LayerIndex, m.ChecksumVerificationResult), seen
			}
		}
	}
	return nil, seen
}

func safeBits(b []byte, l layout, l4 string) []int {
	var pos []int
	add := func(from, to int) {
		for i := from; i < to && i < l.end; i++ {
			for k := 0; k < 8; k++ {
				pos = append(pos, i*8+k)
			}
		}
	}
	ip := l.ipOff
	if l.v6 {
		add(ip+7, ip+8)  // hop limit (not covered by any checksum: control)
		add(ip+8, ip+40) // addresses
	} else {
		add(ip+4, ip+6)   // id
		add(ip+8, ip+9)   // ttl
		add(ip+10, ip+20) // checksum + addresses
	}
	o := l.l4Off
	switch l4 {
	case "tcp":
		add(o, o+12)
		add(o+13, o+20)
		hl := int(b[o+12]>>4) * 4
		add(o+hl, l.end)
	case "udp":
		add(o, o+4)
		add(o+6, l.end)
	case "icmp4", "icmp6":
		add(o+1, l.end)
	case "gre":
		add(o+4, l.end)
	}
	return pos
}

func runPkt(c *PktCase) (f *vh.Failure, cls []string) {
	pv, stack := vh.Recover(func() { f, cls = runPkt1(c) })
	if pv != nil {
		fn, where := vh.InnermostRepoFunc(stack)
		return vh.Failf("panic:"+fn, "panic %v at %s", pv, where), cls
	}
	return f, cls
}

func runPkt1(c *PktCase) (*vh.Failure, []string) {
	var cls []string
	payload := append([]byte(nil), c.Payload...)
	b, err := c.build(payload)
	if err != nil {
		return vh.Failf("serialize-error", "SerializeLayers: %v", err), cls
	}
	l := parseLayout(b)
	co := csumOffset(c.L4)
	if c.Target != nil && co >= 0 && len(payload) >= 2 && (l.end-len(payload)-l.l4Off)%2 == 0 {
		// solve payload[0:2]: with W=0 the reference checksum is C0 = ~S0; we need ~(S0 (+) W) = T
		payload[0], payload[1] = 0, 0
		b0, _ := c.build(payload)
		s0 := ^refL4(b0, l, c.L4)
		want := ^*c.Target
		w := (int(want) - int(s0)) % 0xffff
		if w < 0 {
			w += 0xffff
		}
		payload[0], payload[1] = byte(w>>8), byte(w)
		b, err = c.build(payload)
		if err != nil {
			return vh.Failf("serialize-error", "SerializeLayers: %v", err), cls
		}
	}
	// (2) written checksums equal the reference
	if !l.v6 {
		if got, want := binary.BigEndian.Uint16(b[l.ipOff+10:]), refIPv4Hdr(b, l); got != want {
			return vh.Failf("IPv4:2:written", "IPv4 header checksum written %#04x, reference %#04x", got, want), cls
		}
		if l.ipHdrLen > 20 {
			cls = append(cls, "ipv4-options")
		}
	}
	if co >= 0 && !(c.L4 == "gre" && !c.GRECsum) {
		got := binary.BigEndian.Uint16(b[l.l4Off+co:])
		want := refL4(b, l, c.L4)
		if c.L4 == "udp" && want == 0 {
			want = 0xffff
		}
		if got != want {
			return vh.Failf(c.L4+":2:written", "%s checksum written %#04x, reference %#04x", c.L4, got, want), cls
		}
		switch got {
		case 0x0000, 0xffff, 0x0001, 0xfffe:
			cls = append(cls, fmt.Sprintf("corner-%04x", got), "corner")
		}
		if c.Target != nil && got == *c.Target {
			cls = append(cls, "target-hit")
		}
	}
	if len(payload)%2 == 1 {
		cls = append(cls, "odd-length")
	}
	// (3) verification accepts what the library produced, (4) on the clean packet
	if f, seen := verifyAll(b, true); f != nil {
		return f, cls
	} else if c.L4 != "none" {
		name := map[string]string{"tcp": "TCP", "udp": "UDP", "icmp4": "ICMPv4", "icmp6": "ICMPv6", "gre": "GRE"}[c.L4]
		if !seen[name] {
			return vh.Failf("harness:layer-missing", "%s layer not verified in produced packet", name), cls
		}
	}
	// single-bit corruption
	if c.FlipBit != nil {
		pos := safeBits(b, l, c.L4)
		if len(pos) > 0 {
			bit := pos[*c.FlipBit%len(pos)]
			cb := append([]byte(nil), b...)
			cb[bit/8] ^= 1 << (bit % 8)
			cls = append(cls, "bitflip")
			f, _ := verifyAll(cb, false)
			if f != nil {
				f.Msg = fmt.Sprintf("after flipping bit %d (byte %d): %s", bit, bit/8, f.Msg)
				return f, cls
			}
			// the flipped, covered layer must be reported (unless the protocol's exemption applies)
			if f := mustReport(cb, b, bit/8, l, c); f != nil {
				return f, cls
			}
		}
	}
	return nil, cls
}

// mustReport: a flip inside a covered region must produce a mismatch for that layer via Packet.VerifyChecksums.
func mustReport(cb, orig []byte, byteIdx int, l layout, c *PktCase) *vh.Failure {
	p := gopacket.NewPacket(cb, layers.LayerTypeEthernet, gopacket.DecodeOptions{DecodeStreamsAsDatagrams: true})
	nl := p.NetworkLayer()
	for _, ly := range p.Layers() {
		if x, ok := ly.(interface {
			SetNetworkLayerForChecksum(gopacket.NetworkLayer) error
		}); ok && nl != nil {
			x.SetNetworkLayerForChecksum(nl)
		}
	}
	err, mm := p.VerifyChecksums()
	if err != nil {
		return vh.Failf("Packet.VerifyChecksums:error", "error on corrupted packet: %v", err)
	}
	reported := map[string]bool{}
	for _, m := range mm {
		if m.LayerIndex <= 2 {
			reported[m.Layer.LayerType().String()] = true
		}
	}
	expect := map[string]bool{}
	inIPHdr := byteIdx >= l.ipOff && byteIdx < l.ipOff+l.ipHdrLen
	inAddr := false
	if l.v6 {
		inAddr = byteIdx >= l.ipOff+8 && byteIdx < l.ipOff+40
	} else {
		inAddr = byteIdx >= l.ipOff+12 && byteIdx < l.ipOff+20
		if inIPHdr {
			expect["IPv4"] = true
		}
	}
	name := map[string]string{"tcp": "TCP", "udp": "UDP", "icmp4": "ICMPv4", "icmp6": "ICMPv6", "gre": "GRE"}[c.L4]
	if name != "" {
		covered := byteIdx >= l.l4Off
		if inAddr && (c.L4 == "tcp" || c.L4 == "udp" || c.L4 == "icmp6") {
			covered = true
		}
		if c.L4 == "gre" && !c.GRECsum {
			covered = false
		}
		if c.L4 == "udp" && binary.BigEndian.Uint16(cb[l.l4Off+6:]) == 0 {
			covered = false // flipped the checksum to "no checksum"
		}
		if covered {
			expect[name] = true
		}
	}
	for n := range expect {
		if !reported[n] {
			return vh.Failf(n+":flip-not-reported", "bit flip at byte %d (covered by %s checksum) not reported; mismatches=%v", byteIdx, n, reported)
		}
	}
	for n := range reported {
		if !expect[n] {
			return vh.Failf(n+":flip-spurious", "bit flip at byte %d reported a mismatch for %s which does not cover it", byteIdx, n)
		}
	}
	return nil
}

func genPkt(t *rapid.T) *PktCase {
	c := &PktCase{}
	c.V6 = rapid.Bool().Draw(t, "v6")
	if c.V6 {
		c.L4 = rapid.SampledFrom([]string{"tcp", "udp", "icmp6", "gre", "tcp", "udp"}).Draw(t, "l4")
	} else {
		c.L4 = rapid.SampledFrom([]string{"tcp", "udp", "icmp4", "gre", "none", "tcp", "udp"}).Draw(t, "l4")
	}
	al := 4
	if c.V6 {
		al = 16
	}
	ab := rapid.SampledFrom([]byte{0, 0xff, 1, 10, 192, 168, 0xfe, 0x80})
	if rapid.Bool().Draw(t, "rndaddr") {
		c.Src = rapid.SliceOfN(rapid.Byte(), al, al).Draw(t, "src")
		c.Dst = rapid.SliceOfN(rapid.Byte(), al, al).Draw(t, "dst")
	} else {
		c.Src = rapid.SliceOfN(ab, al, al).Draw(t, "src")
		c.Dst = rapid.SliceOfN(ab, al, al).Draw(t, "dst")
	}
	if !c.V6 {
		switch rapid.IntRange(0, 3).Draw(t, "ipopt") {
		case 1:
			c.IPOptT = 1
			c.IPOpts = make([]byte, rapid.IntRange(1, 40).Draw(t, "nops"))
		case 2:
			c.IPOptT = rapid.SampledFrom([]byte{7, 68, 131, 148}).Draw(t, "optt")
			c.IPOpts = rapid.SliceOfN(rapid.Byte(), 1, 38).Draw(t, "optdata") // the decoder rejects data-less options (length 2)
		}
		if c.IPOptT != 0 && rapid.Bool().Draw(t, "ippad") {
			c.IPPad = rapid.SliceOfN(rapid.Byte(), 1, 3).Draw(t, "ippadding")
		}
	}
	c.ID = rapid.Uint16().Draw(t, "id")
	c.TTL = rapid.Byte().Draw(t, "ttl")
	c.TOS = rapid.Byte().Draw(t, "tos")
	c.SPort = rapid.Uint16().Draw(t, "sport")
	c.DPort = rapid.Uint16().Draw(t, "dport")
	c.Seq = rapid.Uint32().Draw(t, "seq")
	c.Ack = rapid.Uint32().Draw(t, "ack")
	c.Win = rapid.Uint16().Draw(t, "win")
	if c.L4 == "tcp" {
		n := rapid.IntRange(0, 4).Draw(t, "ntcpopt")
		total := 0
		for i := 0; i < n; i++ {
			o := TCPOpt{Kind: rapid.SampledFrom([]byte{1, 1, 2, 3, 4, 8, 5, 254}).Draw(t, "kind")}
			if o.Kind > 1 {
				o.Data = rapid.SliceOfN(rapid.Byte(), 0, 10).Draw(t, "odata")
			}
			sz := 1
			if o.Kind > 1 {
				sz = 2 + len(o.Data)
			}
			if total+sz > 40 {
				break
			}
			total += sz
			c.TCPOpts = append(c.TCPOpts, o)
		}
	}
	c.IType = rapid.SampledFrom([]byte{0, 8, 3, 11, 128, 129, 1, 200}).Draw(t, "itype")
	c.ICode = rapid.SampledFrom([]byte{0, 0, 1, 3}).Draw(t, "icode")
	if c.L4 == "gre" {
		c.GRECsum = rapid.IntRange(0, 4).Draw(t, "grecsum") > 0
		if rapid.Bool().Draw(t, "grekey") {
			k := rapid.Uint32().Draw(t, "key")
			c.GREKey = &k
		}
		if rapid.Bool().Draw(t, "greseq") {
			k := rapid.Uint32().Draw(t, "gseq")
			c.GRESeq = &k
		}
	}
	switch rapid.IntRange(0, 5).Draw(t, "plk") {
	case 0:
		c.Payload = []byte{}
	case 1:
		c.Payload = rapid.SliceOfN(rapid.Byte(), 1, 9).Draw(t, "payload")
	case 2:
		c.Payload = rapid.SliceOfN(rapid.Byte(), 1000, 1480).Draw(t, "payload")
	default:
		c.Payload = rapid.SliceOfN(rapid.Byte(), 2, 200).Draw(t, "payload")
	}
	if c.L4 != "none" && len(c.Payload) >= 2 && rapid.IntRange(0, 2).Draw(t, "solve") > 0 {
		tg := rapid.SampledFrom([]uint16{0x0000, 0x0000, 0xffff, 0x0001, 0xfffe, 0x8000, 0x1234}).Draw(t, "target")
		if rapid.IntRange(0, 3).Draw(t, "anytarget") == 0 {
			tg = rapid.Uint16().Draw(t, "target16")
		}
		c.Target = &tg
	}
	if rapid.IntRange(0, 2).Draw(t, "flip") > 0 {
		fb := rapid.IntRange(0, 1<<20).Draw(t, "flipbit")
		c.FlipBit = &fb
	}
	return c
}

func TestPackets(t *testing.T) {
	rapid.Check(t, func(rt *rapid.T) {
		c := genPkt(rt)
		f, cls := runPkt(c)
		nt := false
		for _, k := range cls {
			if k == "corner" || k == "bitflip" {
				nt = true
			}
		}
		fam := "v4:"
		if c.V6 {
			fam = "v6:"
		}
		cls = append(cls, "l4:"+fam+c.L4)
		js, _ := json.Marshal(c)
		S.Note(vh.Hash64(js), nt, cls...)
		if nt && S.WantSample() {
			S.Sample(map[string]any{"kind": "packet", "case": c})
		}
		S.Check(rt, "TestPackets", c, f)
	})
}

// TestAllTargets: every one of the 65536 16-bit targets for UDP and TCP over IPv4 (sharded in thorough,
// stride-sampled in quick), so each reachable checksum outcome occurs.
func TestAllTargets(t *testing.T) {
	step := 64
	if vh.Thorough() {
		step = 1
	}
	sh, nsh := vh.Shard()
	hits := int64(0)
	for _, l4 := range []string{"udp", "tcp", "icmp4"} {
		for tg := sh * step; tg <= 0xffff; tg += step * nsh {
			v := uint16(tg)
			c := &PktCase{L4: l4, Src: []byte{10, 0, 0, 1}, Dst: []byte{10, 0, 0, 2}, SPort: 1234, DPort: 53, TTL: 64, Payload: []byte{0, 0, 0xab, 0xcd, 0xef}, Target: &v}
			f, cls := runPkt(c)
			for _, k := range cls {
				if k == "target-hit" {
					hits++
				}
			}
			S.Note(vh.Hash64(l4, tg), true, "all-targets:"+l4)
			S.Check(t, "TestPackets", c, f)
			if t.Failed() {
				return
			}
		}
	}
	S.Extra("all_targets_hit_total", hits)
}

func TestRegress(t *testing.T) {
	S.Regress(t, func(rf *vh.ReplayFile) (bool, *vh.Failure) {
		switch rf.Test {
		case "TestFold":
			var c FoldCase
			json.Unmarshal(rf.Case, &c)
			return true, runFold(&c)
		case "TestSum":
			var c SumCase
			json.Unmarshal(rf.Case, &c)
			f, _ := runSum(&c)
			return true, f
		case "TestPackets":
			var c PktCase
			json.Unmarshal(rf.Case, &c)
			f, _ := runPkt(&c)
			return true, f
		}
		return false, nil
	})
}
