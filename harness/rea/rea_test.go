// Package rea drives github.com/gopacket/gopacket/reassembly with generated workloads and checks
// C09 (in-order exactly-once delivery incl. KeepFrom), C11 (lifecycle/leaks/limits; hook H1)
// against the reference model in internal/tcpm.
package rea

import (
	"encoding/json"
	"fmt"
	"os"
	"runtime"
	"sync"
	"sync/atomic"
	"testing"
	"time"

	"github.com/gopacket/gopacket"
	"github.com/gopacket/gopacket/layers"
	"github.com/gopacket/gopacket/reassembly"
	"pgregory.net/rapid"

	"verifharness/internal/tcpm"
	"verifharness/internal/vh"
)

func prop() string {
	if p := os.Getenv("VERIF_PROP"); p != "" {
		return p
	}
	return "C09"
}

var S = vh.New(prop())

func TestMain(m *testing.M) { vh.Main(m, S) }

type ctx struct{ ci gopacket.CaptureInfo }

func (c *ctx) GetCaptureInfo() gopacket.CaptureInfo { return c.ci }

type stream struct {
	r          *runner
	h          [2]*tcpm.Half // indexed by model direction; nil for late-traffic streams
	conn, inc  int
	bound      bool
	gone       bool
	inCallback atomic.Bool
	firstDir   int
	id         int
	done       int
	answer     bool
	deliv      int
}

func (s *stream) Accept(tcp *layers.TCP, ci gopacket.CaptureInfo, dir reassembly.TCPFlowDirection, nextSeq reassembly.Sequence, start *bool, ac reassembly.AssemblerContext) bool {
	return true
}

// bind attaches the stream to its model halves at its first callback. Under concurrency two streams may be created
// for one 4-tuple (both first packets race); only the one the pool keeps may ever receive callbacks.
func (s *stream) bind() {
	if s.bound {
		return
	}
	s.bound = true
	k := [2]int{s.conn, s.inc}
	if o := s.r.owner[k]; o != nil && o != s {
		if o.done == 0 {
			s.r.failf("two-entries", "two streams of connection %d (incarnation %d) both receive callbacks: the directions are not attached to a single connection entry", s.conn, s.inc)
		}
		return // traffic after the end of the connection: a fresh stream, not judged
	}
	s.r.owner[k] = s
	h0, h1 := s.r.m.Half(s.conn, 0, s.inc), s.r.m.Half(s.conn, 1, s.inc)
	s.h = [2]*tcpm.Half{h0, h1}
	s.r.m.Bind(h0)
	s.r.m.Bind(h1)
}

func (s *stream) enter(what string) {
	if !s.inCallback.CompareAndSwap(false, true) {
		s.r.lock()
		s.r.failf("overlap", "callbacks of stream %d overlap (%s while another callback of the same stream is running)", s.id, what)
		s.r.unlock()
	}
	if s.r.yield != nil {
		s.r.yield("callback:" + what)
	} else if s.r.locked != nil {
		runtime.Gosched() // widen the window in which an unserialised second callback would be seen
	}
}

func (r *runner) lock() {
	if r.locked != nil {
		r.locked.Lock()
	}
}

func (r *runner) unlock() {
	if r.locked != nil {
		r.locked.Unlock()
	}
}

func (s *stream) ReassembledSG(sg reassembly.ScatterGather, ac reassembly.AssemblerContext) {
	s.enter("ReassembledSG")
	defer s.inCallback.Store(false)
	s.r.lock()
	defer s.r.unlock()
	s.bind()
	if s.done > 0 {
		s.r.failf("data-after-completion", "stream %d received data after ReassemblyComplete", s.id)
	}
	dir, start, end, skip := sg.Info()
	total, saved := sg.Lengths()
	data := append([]byte(nil), sg.Fetch(total)...)
	if saved > total || len(data) != total {
		s.r.failf("sg-lengths", "Lengths()=(%d,%d) but Fetch returned %d bytes", total, saved, len(data))
		return
	}
	md := s.firstDir
	if dir == reassembly.TCPDirServerToClient {
		md = 1 - s.firstDir
	}
	keep := -1
	if ks := s.r.c.Keep; len(ks) > 0 {
		if pm := ks[s.deliv%len(ks)]; pm >= 0 {
			keep = total * pm / 1000
			sg.KeepFrom(keep)
		}
	}
	s.deliv++
	s.r.batches++
	if s.h[md] == nil {
		s.r.lateDeliveries++
		return
	}
	if s.r.noModel || s.r.unordered != nil && s.r.unordered(s.conn, md) {
		return // no delivery order is promised for this direction
	}
	s.r.m.Deliver(s.h[md], tcpm.Delivery{Skip: skip, Saved: data[:saved], New: data[saved:], Start: start, End: end, KeepFrom: keep})
}

func (s *stream) ReassemblyComplete(ac reassembly.AssemblerContext) bool {
	s.enter("ReassemblyComplete")
	defer s.inCallback.Store(false)
	s.r.lock()
	defer s.r.unlock()
	s.bind()
	s.done++
	if s.done > 1 {
		s.r.failf("completed-twice", "stream %d completed %d times", s.id, s.done)
	}
	for _, h := range s.h {
		if h != nil {
			s.r.m.CompleteConn(h, s.answer)
		}
	}
	if s.answer {
		s.gone = true
	}
	return s.answer
}

type runner struct {
	c                       *tcpm.Case
	m                       *tcpm.Model
	streams                 []*stream
	fail                    *vh.Failure
	op                      int
	batches, lateDeliveries int
	owner                   map[[2]int]*stream
	created                 map[[2]int]bool          // a stream was requested from the factory for this connection incarnation
	yield                   func(site string)        // set by the controlled-schedule test
	locked                  *sync.Mutex              // race-stress mode: serialises the harness' own bookkeeping
	unordered               func(conn, dir int) bool // C12: directions whose packets are spread over assemblers
	noModel                 bool                     // race-stress mode with a flusher: arrival order is unknowable, deliveries are not judged
}

func (r *runner) failf(key, format string, a ...any) {
	if r.fail == nil {
		r.fail = vh.Failf(key, "op %d: "+format, append([]any{r.op}, a...)...)
	}
}

func (r *runner) New(netFlow, tcpFlow gopacket.Flow, tcp *layers.TCP, ac reassembly.AssemblerContext) reassembly.Stream {
	sp := int(uint16(tcpFlow.Src().Raw()[0])<<8 | uint16(tcpFlow.Src().Raw()[1]))
	dp := int(uint16(tcpFlow.Dst().Raw()[0])<<8 | uint16(tcpFlow.Dst().Raw()[1]))
	dir, cp := 0, sp
	if sp < 10000 {
		dir, cp = 1, dp
	}
	conn, inc := (cp-10000)/64, (cp-10000)%64
	if r.yield != nil {
		r.yield("factory.New")
	}
	r.lock()
	defer r.unlock()
	s := &stream{r: r, id: len(r.streams), firstDir: dir, answer: true, conn: conn, inc: inc}
	if len(r.c.Complete) > 0 {
		s.answer = r.c.Complete[s.id%len(r.c.Complete)]
	}
	r.created[[2]int{conn, inc}] = true
	r.streams = append(r.streams, s)
	return s
}

func flows(s *tcpm.Seg) (gopacket.Flow, layers.TCPPort, layers.TCPPort) {
	cp, sp := tcpm.Ports(s.Conn, s.Inc)
	src, dst := []byte{10, 0, 0, byte(1 + s.Conn)}, []byte{10, 0, 1, 1}
	if s.Dir == 0 {
		return gopacket.NewFlow(layers.EndpointIPv4, src, dst), layers.TCPPort(cp), layers.TCPPort(sp)
	}
	return gopacket.NewFlow(layers.EndpointIPv4, dst, src), layers.TCPPort(sp), layers.TCPPort(cp)
}

func mkTCP(c *tcpm.Case, s *tcpm.Seg) (gopacket.Flow, *layers.TCP) {
	nf, sp, dp := flows(s)
	t := &layers.TCP{Seq: c.Seq(s), SYN: s.SYN, FIN: s.FIN, RST: s.RST, ACK: !s.SYN, SrcPort: sp, DstPort: dp}
	t.SetInternalPortsForTesting()
	t.Payload = c.Payload(s)
	return nf, t
}

func ts(sec int64) time.Time {
	if sec == 0 {
		return time.Time{}
	}
	return time.Unix(1_700_000_000+sec, 0)
}

func pagesOf(n int) int {
	if n == 0 {
		return 1
	}
	return (n + 1899) / 1900
}

func run(c *tcpm.Case, lifecycle bool) (f *vh.Failure, m *tcpm.Model, info map[string]bool) {
	test := "Test" + prop()
	S.Guard(test, "assembler", c, 30*time.Second, func() { f, m, info = run1(c, lifecycle) })
	return
}

func run1(c *tcpm.Case, lifecycle bool) (f *vh.Failure, m *tcpm.Model, info map[string]bool) {
	r := &runner{c: c, m: tcpm.NewModel(c, "reassembly"), owner: map[[2]int]*stream{}, created: map[[2]int]bool{}}
	info = map[string]bool{}
	pv, stack := vh.Recover(func() {
		pool := reassembly.NewStreamPool(r)
		a := reassembly.NewAssembler(pool)
		a.MaxBufferedPagesPerConnection = c.MaxPerConn
		a.MaxBufferedPagesTotal = c.MaxTotal
		// syncClosed copies half closures the assembler performed without an End delivery (idle close) into the model
		syncClosed := func() {
			for k := range r.created {
				r.m.Half(k[0], 0, k[1])
				r.m.Half(k[0], 1, k[1])
			}
			for _, h := range r.m.Halves() {
				if !r.created[[2]int{h.Conn, h.Inc}] || h.Closed || h.Gone {
					continue
				}
				nf, sp, dp := flows(&tcpm.Seg{Conn: h.Conn, Dir: h.Dir, Inc: h.Inc})
				t := &layers.TCP{SrcPort: sp, DstPort: dp}
				t.SetInternalPortsForTesting()
				found, hc, _ := reassembly.VerifHalfClosed(pool, nf, t.TransportFlow())
				if found && hc {
					if off, _, ok := h.FirstWithheld(); ok && h.Started() {
						r.failf("closed-with-queued-data", "conn %d dir %d was closed by a flush while arrived data at offset %d is undelivered", h.Conn, h.Dir, off)
					}
					h.Closed = true
				}
			}
		}
		maxPkt := 0
		for i := range c.Ops {
			op := &c.Ops[i]
			r.op = i
			r.m.BeginOp(i, op)
			switch op.K {
			case "seg":
				r.m.Arrive(op.Seg, op.Ts)
				nf, t := mkTCP(c, op.Seg)
				a.AssembleWithContext(nf, t, &ctx{gopacket.CaptureInfo{Timestamp: ts(op.Ts), CaptureLength: len(t.Payload), Length: len(t.Payload)}})
				if lifecycle {
					// A queue can only shrink when a packet of its own connection (or a flush) comes: after a large
					// packet it legitimately stays at limit + pages(that packet) while other connections' packets are
					// processed, so the allowance is the largest packet seen so far, not the current one.
					maxPkt = max(maxPkt, pagesOf(op.Seg.Len))
					extra := maxPkt
					queued, _, _ := reassembly.VerifConnPages(pool)
					if c.MaxTotal > 0 {
						// pages held for out-of-order data only: pages a stream asked to keep are not "buffered out-of-order data"
						used := 0
						for _, n := range queued {
							used += n
						}
						if used > c.MaxTotal+extra {
							r.failf("reassembly:3:total-limit", "pages queued for out-of-order data %d exceed total limit %d by more than the %d pages of the packet just processed", used, c.MaxTotal, extra)
						}
					}
					if c.MaxPerConn > 0 {
						for _, n := range queued {
							if n > c.MaxPerConn+extra {
								r.failf("reassembly:3:conn-limit", "a half connection queues %d pages, per-connection limit %d, packet just processed has %d pages", n, c.MaxPerConn, extra)
							}
						}
					}
				}
			case "flushOlder":
				a.FlushCloseOlderThan(ts(op.T))
				syncClosed()
				if lifecycle {
					r.ageAudit(op.T)
				}
			case "flushOpts":
				a.FlushWithOptions(reassembly.FlushOptions{T: ts(op.T), TC: ts(op.TC)})
				syncClosed()
				if lifecycle {
					r.ageAudit(op.T)
				}
			case "flushAll":
				a.FlushAll()
				if lifecycle {
					if used := reassembly.VerifPagesUsed(a); used != 0 {
						r.failf("reassembly:2:pages-leaked", "%d pages still in use after FlushAll", used)
					}
					refused := 0
					for _, s := range r.streams {
						if !s.bound {
							continue // created by the factory but never kept by the pool
						}
						if s.done != 1 {
							r.failf("reassembly:2:completion-count", "stream %d (of %d) completed %d times after FlushAll", s.id, len(r.streams), s.done)
						}
						if !s.answer {
							refused++
						}
					}
					if conns, _ := reassembly.VerifPoolStats(pool); conns > refused {
						r.failf("reassembly:2:conns-left", "%d connections remain in the pool after FlushAll but only %d streams refused removal", conns, refused)
					}
				}
			}
			if lifecycle {
				queued, saved, counted := reassembly.VerifConnPages(pool)
				sum := 0
				for k := range queued {
					sum += queued[k] + saved[k]
					if counted[k] != queued[k]+saved[k] {
						// the per-connection limit is enforced on this counter: once it drifts the limit means nothing
						r.failf("reassembly:pages-counter", "a half connection's page counter says %d but %d pages are queued and %d kept", counted[k], queued[k], saved[k])
					}
				}
				if used := reassembly.VerifPagesUsed(a); used < sum {
					r.failf("reassembly:pages-accounting", "page cache reports %d pages in use, live connections hold %d", used, sum)
				}
			}
			r.m.EndOp()
			if r.fail != nil || r.m.Failure() != nil {
				return
			}
		}
		if c.FinalFlushAll {
			r.m.AfterFlushAll()
		}
		if len(r.streams) > 1 {
			info["multi-stream"] = true
		}
		if r.lateDeliveries > 0 {
			info["late-traffic-stream"] = true
		}
	})
	if pv != nil {
		fn, where := vh.InnermostRepoFunc(stack)
		f = vh.Failf("panic:"+fn, "op %d: panic %v at %s", r.op, pv, where)
	}
	if f == nil {
		f = r.fail
	}
	if f == nil {
		f = r.m.Failure()
	}
	if f != nil && r.m.SynPayloadLate {
		f = vh.Failf("syn-payload-after-start", "[history contains a payload-bearing SYN arriving after its direction's position was fixed] %s: %s", f.Key, f.Msg)
	}
	return f, r.m, info
}

func (r *runner) ageAudit(T int64) {
	for _, h := range r.m.Halves() {
		if !h.Bound() || h.Closed || h.Gone {
			continue
		}
		if x, newest, ok := h.FirstWithheld(); ok && newest < T {
			r.failf("reassembly:4:age-flush-left-old-data", "after flushing older than %d, conn %d dir %d still withholds offset %d whose newest covering segment has timestamp %d", T, h.Conn, h.Dir, x, newest)
		}
	}
}

func note(c *tcpm.Case, m *tcpm.Model, info map[string]bool, extra ...string) {
	nt, cls := m.Classes()
	for k := range info {
		cls = append(cls, k)
	}
	cls = append(cls, extra...)
	if c.MaxPerConn > 0 || c.MaxTotal > 0 {
		cls = append(cls, "has-limit")
	}
	if len(c.Keep) > 0 {
		cls = append(cls, "has-keep")
	}
	js, _ := json.Marshal(c)
	S.Note(vh.Hash64(js), nt, cls...)
	if nt && len(js) < 2500 && S.WantSample() {
		S.Sample(c)
	}
}

func TestC09(t *testing.T) {
	o := tcpm.GenOpts{MaxConns: 2, MaxStream: 20000, MaxSegs: 24, BothDirs: true, Limits: true, MidFlush: true, SynPayload: true, Keep: true}
	if vh.Thorough() {
		o.MaxStream, o.MaxSegs = 200000, 200
	}
	rapid.Check(t, func(rt *rapid.T) {
		c := tcpm.Gen(rt, o)
		f, m, info := run(c, false)
		note(c, m, info)
		S.Check(rt, "TestC09", c, f)
	})
}

func TestC11(t *testing.T) {
	o := tcpm.GenOpts{MaxConns: 6, MaxStream: 9000, MaxSegs: 12, BothDirs: true, Limits: true, MidFlush: true, Reopen: true, Keep: true}
	if vh.Thorough() {
		o.MaxConns, o.MaxSegs = 12, 40
	}
	rapid.Check(t, func(rt *rapid.T) {
		c := tcpm.Gen(rt, o)
		if rapid.IntRange(0, 2).Draw(rt, "refusals") == 0 {
			c.Complete = rapid.SliceOfN(rapid.Bool(), 1, 6).Draw(rt, "complete")
		}
		f, m, info := run(c, true)
		note(c, m, info, fmt.Sprintf("conns-%d", min(len(c.Conns), 4)))
		S.Check(rt, "TestC11", c, f)
	})
}

func TestRegress(t *testing.T) {
	S.Regress(t, func(rf *vh.ReplayFile) (bool, *vh.Failure) {
		var c tcpm.Case
		if err := json.Unmarshal(rf.Case, &c); err != nil {
			t.Fatal(err)
		}
		switch rf.Test {
		case "TestC09":
			f, _, _ := run(&c, false)
			return true, f
		case "TestC11":
			f, _, _ := run(&c, true)
			return true, f
		}
		if regressExtra != nil {
			return regressExtra(rf)
		}
		return false, nil
	})
}

var regressExtra func(rf *vh.ReplayFile) (bool, *vh.Failure)
