// Package c04 checks property C04: data ownership — copy isolates; NoCopy and Pool change only where bytes
// live; live pooled packets never share memory (DESIGN.md §5 C04).
package c04

import (
	"encoding/json"
	"fmt"
	"sync"
	"testing"
	"time"
	"unsafe"

	"github.com/gopacket/gopacket"
	"github.com/gopacket/gopacket/layers"
	"pgregory.net/rapid"

	"verifharness/internal/acc"
	"verifharness/internal/gen"
	"verifharness/internal/registry"
	"verifharness/internal/sig"
	"verifharness/internal/vh"
)

var S = vh.New("C04")

func TestMain(m *testing.M) { vh.Main(m, S) }

func fullSig(p gopacket.Packet) string {
	var s string
	vh.Recover(func() {
		s = sig.Packet(p) + "|" + acc.Exec(p, acc.Step{Op: "String"}) + "|" + acc.Exec(p, acc.Step{Op: "Data"})
	})
	return s
}

// ---- value cases ----

type ValCase struct {
	LT      int    `json:"lt"`
	Data    []byte `json:"data"`
	Lazy    bool   `json:"lazy"`
	Streams bool   `json:"streams"`
	Mutate  string `json:"mutate"` // all | some | none
	Seed    byte   `json:"seed"`
}

func runVal(c *ValCase) (f *vh.Failure) {
	S.Guard("TestValues", "values", c, 60*time.Second, func() { f = runVal1(c) })
	return
}

func runVal1(c *ValCase) *vh.Failure {
	lt := gopacket.LayerType(c.LT)
	base := gopacket.DecodeOptions{Lazy: c.Lazy, DecodeStreamsAsDatagrams: c.Streams}
	mk := func(o gopacket.DecodeOptions, buf []byte) (p gopacket.Packet, ok bool) {
		pv, _ := vh.Recover(func() { p = gopacket.NewPacket(buf, lt, o) })
		return p, pv == nil && p != nil
	}
	// (a) default options: the packet does not change when the caller's buffer is modified afterwards
	buf := append([]byte(nil), c.Data...)
	p, ok := mk(base, buf)
	if !ok {
		return nil // panics escaping NewPacket are C01's subject
	}
	var before string
	if !c.Lazy {
		before = fullSig(p)
	}
	switch c.Mutate {
	case "all":
		for i := range buf {
			buf[i] ^= 0xff
		}
	case "some":
		for i := int(c.Seed) % 7; i < len(buf); i += 1 + int(c.Seed)%5 {
			buf[i] += c.Seed | 1
		}
	}
	after := fullSig(p)
	ref := fullSig(mustPacket(mk(base, append([]byte(nil), c.Data...))))
	if c.Lazy {
		before = ref
	}
	if after != before || after != ref {
		return vh.Failf("copy-not-isolated:"+lt.String(), "default options: packet changed after the caller's buffer was modified (%s, lazy=%v): %s", c.Mutate, c.Lazy, sig.Diff(ref, after))
	}
	// (b) NoCopy and Pool give the identical result
	o := base
	o.NoCopy = true
	if q, ok := mk(o, append([]byte(nil), c.Data...)); ok {
		if s := fullSig(q); s != ref {
			return vh.Failf("nocopy-differs:"+lt.String(), "NoCopy decoding of %d bytes as %v differs from default: %s", len(c.Data), lt, sig.Diff(ref, s))
		}
	} else {
		return vh.Failf("nocopy-differs:"+lt.String(), "NoCopy decoding panicked where default decoding did not")
	}
	o = base
	o.Pool = true
	q, ok := mk(o, append([]byte(nil), c.Data...))
	if !ok {
		return vh.Failf("pool-differs:"+lt.String(), "Pool decoding of %d bytes panicked where default decoding did not", len(c.Data))
	}
	if s := fullSig(q); s != ref {
		return vh.Failf("pool-differs:"+lt.String(), "Pool decoding of %d bytes as %v differs from default: %s", len(c.Data), lt, sig.Diff(ref, s))
	}
	if pp, ok := q.(gopacket.PooledPacket); ok {
		if pv, _ := vh.Recover(func() { pp.Dispose() }); pv != nil {
			return vh.Failf("dispose-panics", "Dispose panicked: %v", pv)
		}
	}
	// (b') a user-supplied decoder that looks at everything its data slice can reach (up to the capacity) must see
	// the same bytes in all three modes: the bytes live elsewhere, nothing else may differ
	reach := func(o gopacket.DecodeOptions) string {
		var seen string
		dec := gopacket.DecodeFunc(func(data []byte, pb gopacket.PacketBuilder) error {
			seen = fmt.Sprintf("%x", data[:cap(data)])
			return nil
		})
		in := append([]byte(nil), c.Data...)
		vh.Recover(func() {
			pk := gopacket.NewPacket(in[:len(in):len(in)], dec, o)
			pk.Layers()
			if pp, ok := pk.(gopacket.PooledPacket); ok {
				pp.Dispose()
			}
		})
		return seen
	}
	if len(c.Data) > 0 {
		d := reach(base)
		o = base
		o.NoCopy = true
		if n := reach(o); n != d {
			return vh.Failf("nocopy-reach-differs", "a decoder can reach %d bytes with NoCopy but %d with default options", len(n)/2, len(d)/2)
		}
		o = base
		o.Pool = true
		if n := reach(o); n != d {
			return vh.Failf("pool-reach-differs", "with Pool a decoder can reach %d bytes (stale pool block content), with default options %d", len(n)/2, len(d)/2)
		}
	}
	return nil
}

func mustPacket(p gopacket.Packet, ok bool) gopacket.Packet { return p }

var poolLens = []int{0, 1, 2, 59, 60, 1499, 1500, 1501, 1502, 1600, 3000}

func genData(t *rapid.T) []byte {
	switch rapid.IntRange(0, 4).Draw(t, "datakind") {
	case 0:
		n := rapid.SampledFrom(poolLens).Draw(t, "plen")
		b := gen.Seeded(t)
		for len(b) < n {
			b = append(b, b...)
			if len(b) == 0 {
				b = []byte{0x45}
			}
		}
		return b[:n]
	default:
		b, _ := gen.Bytes(t)
		if len(b) > 4000 {
			b = b[:4000]
		}
		return b
	}
}

func TestValues(t *testing.T) {
	fl := registry.FirstLayers()
	rapid.Check(t, func(rt *rapid.T) {
		lt := fl[rapid.IntRange(0, len(fl)-1).Draw(rt, "first")]
		if rapid.IntRange(0, 2).Draw(rt, "eth") > 0 {
			lt = layers.LayerTypeEthernet
		}
		c := &ValCase{LT: int(lt), Data: genData(rt), Lazy: rapid.Bool().Draw(rt, "lazy"), Streams: rapid.Bool().Draw(rt, "streams"),
			Mutate: rapid.SampledFrom([]string{"all", "some", "some"}).Draw(rt, "mutate"), Seed: rapid.Byte().Draw(rt, "seed")}
		n := len(c.Data)
		cls := []string{"values"}
		if n >= 1499 && n <= 1502 {
			cls = append(cls, "at-pool-block-boundary")
		}
		if n > 1500 {
			cls = append(cls, "larger-than-pool-block")
		}
		S.Note(vh.Hash64(c.LT, c.Data, c.Lazy, c.Streams, c.Mutate, c.Seed), n > 0, cls...)
		if n > 0 && n < 100 && S.WantSample() {
			S.Sample(c)
		}
		S.Check(rt, "TestValues", c, runVal(c))
	})
}

// ---- pool state machine ----

type MOp struct {
	K    string `json:"k"` // new | dispose | touch
	Len  int    `json:"len,omitempty"`
	Salt byte   `json:"salt,omitempty"`
	I    int    `json:"i,omitempty"`
	Lazy bool   `json:"lazy,omitempty"`
}

type MachCase struct {
	Ops []MOp `json:"ops"`
}

func machData(n int, salt byte) []byte {
	// an Ethernet/IPv4/UDP-looking header followed by a pattern, so several layers decode
	b := make([]byte, n)
	hdr := []byte{2, 0, 0, 0, 0, 1, 2, 0, 0, 0, 0, 2, 8, 0, 0x45, 0, 0, 0, 0, 1, 0, 0, 64, 17, 0, 0, 10, 0, 0, 1, 10, 0, 0, 2, 0x10, 0x00, 0x10, 0x01, 0, 0, 0, 0}
	copy(b, hdr)
	if n >= 18 {
		b[16], b[17] = byte((n-14)>>8), byte(n-14)
	}
	if n >= 40 {
		b[38], b[39] = byte((n-34)>>8), byte(n-34)
	}
	for i := len(hdr); i < n; i++ {
		b[i] = byte(i)*3 ^ salt
	}
	return b
}

type live struct {
	p    gopacket.Packet
	pp   gopacket.PooledPacket
	sig  string
	data []byte
}

type machStats struct{ reuseChance, pooled int }

func addrRange(d []byte) (uintptr, uintptr, bool) {
	if len(d) == 0 {
		return 0, 0, false
	}
	a := uintptr(unsafe.Pointer(&d[0]))
	return a, a + uintptr(len(d)), true
}

func runMachine(c *MachCase, st *machStats) (f *vh.Failure) {
	var lives []*live
	disposedSinceNew := false
	pv, stack := vh.Recover(func() {
		for i, op := range c.Ops {
			switch op.K {
			case "new":
				data := machData(op.Len, op.Salt)
				p := gopacket.NewPacket(data, layers.LayerTypeEthernet, gopacket.DecodeOptions{Pool: true, Lazy: op.Lazy})
				l := &live{p: p, data: data}
				l.pp, _ = p.(gopacket.PooledPacket)
				if l.pp == nil && op.Len <= 1500 {
					f = vh.Failf("pool:not-pooled", "op %d: a %d-byte packet decoded with Pool is not a PooledPacket", i, op.Len)
					return
				}
				if l.pp != nil {
					st.pooled++
				}
				l.sig = fullSig(p)
				want := fullSig(gopacket.NewPacket(data, layers.LayerTypeEthernet, gopacket.DecodeOptions{Lazy: op.Lazy}))
				if l.sig != want {
					f = vh.Failf("pool:differs-from-default", "op %d: pooled packet of %d bytes differs from default decoding: %s", i, op.Len, sig.Diff(want, l.sig))
					return
				}
				// the caller's buffer may be reused at once
				for k := range data {
					data[k] = 0xEE
				}
				if disposedSinceNew && len(lives) > 0 {
					st.reuseChance++
				}
				lives = append(lives, l)
			case "dispose":
				if len(lives) == 0 {
					continue
				}
				k := op.I % len(lives)
				if lives[k].pp != nil {
					lives[k].pp.Dispose()
					disposedSinceNew = true
				}
				lives = append(lives[:k], lives[k+1:]...)
			case "touch":
				if len(lives) == 0 {
					continue
				}
				_ = fullSig(lives[op.I%len(lives)].p)
			}
			// invariant: live pooled packets are pairwise disjoint in memory and unchanged
			for a := 0; a < len(lives); a++ {
				if s := fullSig(lives[a].p); s != lives[a].sig {
					f = vh.Failf("pool:live-packet-changed", "op %d (%s): live pooled packet %d changed: %s", i, op.K, a, sig.Diff(lives[a].sig, s))
					return
				}
				alo, ahi, ok := addrRange(lives[a].p.Data())
				if !ok {
					continue
				}
				for b := a + 1; b < len(lives); b++ {
					blo, bhi, ok := addrRange(lives[b].p.Data())
					if ok && alo < bhi && blo < ahi {
						f = vh.Failf("pool:shared-memory", "op %d (%s): live pooled packets %d and %d share backing memory", i, op.K, a, b)
						return
					}
				}
			}
		}
		for _, l := range lives {
			if l.pp != nil {
				l.pp.Dispose()
			}
		}
	})
	if pv != nil {
		fn, where := vh.InnermostRepoFunc(stack)
		return vh.Failf("pool:panic:"+fn, "panic %v at %s", pv, where)
	}
	return f
}

func genMachine(t *rapid.T, maxOps int) *MachCase {
	c := &MachCase{}
	n := rapid.IntRange(5, maxOps).Draw(t, "nops")
	for i := 0; i < n; i++ {
		switch rapid.IntRange(0, 5).Draw(t, "opk") {
		case 0, 1, 2:
			l := rapid.SampledFrom([]int{0, 1, 14, 42, 60, 64, 200, 1499, 1500, 1501, 1600}).Draw(t, "len")
			if rapid.IntRange(0, 3).Draw(t, "rndlen") == 0 {
				l = rapid.IntRange(0, 1700).Draw(t, "len2")
			}
			c.Ops = append(c.Ops, MOp{K: "new", Len: l, Salt: rapid.Byte().Draw(t, "salt"), Lazy: rapid.IntRange(0, 4).Draw(t, "lazy") == 0})
		case 3, 4:
			c.Ops = append(c.Ops, MOp{K: "dispose", I: rapid.IntRange(0, 30).Draw(t, "i")})
		default:
			c.Ops = append(c.Ops, MOp{K: "touch", I: rapid.IntRange(0, 30).Draw(t, "i")})
		}
	}
	return c
}

func TestMachine(t *testing.T) {
	rapid.Check(t, func(rt *rapid.T) {
		c := genMachine(rt, 80)
		var st machStats
		f := runMachine(c, &st)
		js, _ := json.Marshal(c)
		cls := []string{"machine"}
		if st.reuseChance > 0 {
			cls = append(cls, "new-after-dispose-with-live-packets")
		}
		S.Note(vh.Hash64(js), st.reuseChance > 0, cls...)
		if st.reuseChance > 0 && len(js) < 1500 && S.WantSample() {
			S.Sample(c)
		}
		S.Check(rt, "TestMachine", c, f)
	})
}

// ---- concurrent machines (race build) ----

type ConcCase struct {
	Machines []MachCase `json:"machines"`
}

func runConc(c *ConcCase) *vh.Failure {
	fails := make([]*vh.Failure, len(c.Machines))
	var wg sync.WaitGroup
	start := make(chan struct{})
	for i := range c.Machines {
		wg.Add(1)
		go func(i int) {
			defer wg.Done()
			<-start
			var st machStats
			fails[i] = runMachine(&c.Machines[i], &st)
		}(i)
	}
	close(start)
	wg.Wait()
	for i, f := range fails {
		if f != nil {
			return vh.Failf("concurrent:"+f.Key, "goroutine %d: %s", i, f.Msg)
		}
	}
	return nil
}

func TestConcurrent(t *testing.T) {
	rapid.Check(t, func(rt *rapid.T) {
		c := &ConcCase{}
		n := rapid.IntRange(2, 8).Draw(rt, "goroutines")
		for i := 0; i < n; i++ {
			c.Machines = append(c.Machines, *genMachine(rt, 40))
		}
		js, _ := json.Marshal(c)
		S.Note(vh.Hash64(js), true, fmt.Sprintf("goroutines-%d", n))
		if len(js) < 2500 && S.WantSample() {
			S.Sample(c)
		}
		S.Current("TestConcurrent", c)
		var f *vh.Failure
		S.Guard("TestConcurrent", "concurrent", c, 120*time.Second, func() { f = runConc(c) })
		S.Check(rt, "TestConcurrent", c, f)
	})
}

func TestRegress(t *testing.T) {
	S.Regress(t, func(rf *vh.ReplayFile) (bool, *vh.Failure) {
		switch rf.Test {
		case "TestValues", "TestDecode":
			var c ValCase
			if err := json.Unmarshal(rf.Case, &c); err != nil {
				t.Fatal(err)
			}
			if c.Mutate == "" {
				c.Mutate = "all"
			}
			return true, runVal(&c)
		case "TestMachine":
			var c MachCase
			if err := json.Unmarshal(rf.Case, &c); err != nil {
				t.Fatal(err)
			}
			var st machStats
			return true, runMachine(&c, &st)
		case "TestConcurrent":
			var c ConcCase
			if err := json.Unmarshal(rf.Case, &c); err != nil {
				t.Fatal(err)
			}
			for i := 0; i < 20; i++ {
				if f := runConc(&c); f != nil {
					return true, f
				}
			}
			return true, nil
		}
		return false, nil
	})
}
