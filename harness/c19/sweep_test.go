package c19

import (
	"reflect"
	"sort"
	"testing"
	"time"

	"github.com/gopacket/gopacket"
	"github.com/gopacket/gopacket/layers"
	"pgregory.net/rapid"

	"verifharness/internal/corpus"
	"verifharness/internal/gen"
	"verifharness/internal/registry"
	"verifharness/internal/vh"
)

// Layer-instance sweep: option/TLV parsers fail in a tiny region of the input space (a length byte that ends
// one short, a type byte as the very last byte of an options area) that random mutation of whole packets
// rarely hits. The sweep takes every layer of every corpus packet as the input of its own in-place decoder —
// the layer's header bytes alone, so that the end of the input is the end of the options area, and with its
// payload — and tries, deterministically: every truncation, every single byte set to each of 8 boundary
// values, and every pair of bytes within distance 3 inside the first and the last 6 bytes set to each
// combination of those values.

type instance struct {
	typ  string
	data []byte
}

var sweepValues = []byte{0x00, 0x01, 0x02, 0x03, 0x05, 0x7f, 0x80, 0xff}

func layerInstances() []instance {
	seen := map[uint64]bool{}
	var out []instance
	add := func(typ string, d []byte) {
		if len(d) == 0 || len(d) > 96 {
			return
		}
		h := vh.Hash64(typ, d)
		if seen[h] {
			return
		}
		seen[h] = true
		out = append(out, instance{typ, append([]byte(nil), d...)})
	}
	firsts := []gopacket.LayerType{layers.LayerTypeEthernet, layers.LayerTypeIPv4, layers.LayerTypeIPv6, layers.LayerTypeDot11, layers.LayerTypeRadioTap, layers.LayerTypeLinuxSLL}
	for _, s := range corpus.Seeds() {
		if len(s) > 4000 {
			continue
		}
		for _, lt := range firsts {
			p := gopacket.NewPacket(s, lt, gopacket.DecodeOptions{NoCopy: true})
			ls := p.Layers()
			if len(ls) < 2 || p.ErrorLayer() != nil && len(ls) < 3 {
				continue
			}
			for _, l := range ls {
				rt := reflect.TypeOf(l)
				if rt.Kind() != reflect.Ptr {
					continue
				}
				name := rt.Elem().Name()
				if _, ok := dlByName[name]; !ok {
					continue
				}
				c := l.LayerContents()
				add(name, c)
				if pl := l.LayerPayload(); len(pl) > 0 && len(c)+len(pl) <= 96 {
					add(name, append(append([]byte(nil), c...), pl...))
				}
			}
			break // first decoder that makes sense of the seed
		}
	}
	sort.Slice(out, func(i, j int) bool {
		if out[i].typ != out[j].typ {
			return out[i].typ < out[j].typ
		}
		return string(out[i].data) < string(out[j].data)
	})
	return out
}

// sweepOne runs all variants of one instance; it returns the first failing variant, if any.
func sweepOne(in instance) (bad []byte, n int) {
	t := dlByName[in.typ]
	buf := make([]byte, len(in.data))
	var cur []byte
	try := func(d []byte) {
		cur = d
		n++
		bd := t.New().(registry.ByteDecoder)
		if err := bd.DecodeFromBytes(d, gopacket.NilDecodeFeedback); err == nil {
			if dl, ok := bd.(gopacket.DecodingLayer); ok {
				_ = dl.NextLayerType()
				_ = dl.LayerPayload()
			}
		}
	}
	pv, _ := vh.Recover(func() {
		L := len(in.data)
		for k := 0; k <= L; k++ {
			copy(buf, in.data)
			try(buf[:k:k])
		}
		for i := 0; i < L; i++ {
			for _, v := range sweepValues {
				copy(buf, in.data)
				buf[i] = v
				try(buf)
			}
		}
		pair := func(i, j int) {
			for _, v := range sweepValues {
				for _, w := range sweepValues {
					copy(buf, in.data)
					buf[i], buf[j] = v, w
					try(buf)
				}
			}
		}
		for i := 0; i < L; i++ {
			if i >= 6 && i < L-6 {
				continue
			}
			for j := i + 1; j < L && j <= i+3; j++ {
				pair(i, j)
			}
		}
	})
	if pv != nil {
		return append([]byte(nil), cur...), n
	}
	return nil, n
}

func TestLayerSweep(t *testing.T) {
	if len(corpus.Seeds()) == 0 {
		t.Skip("no corpus")
	}
	ins := layerInstances()
	sh, nsh := vh.Shard()
	step := 4
	if vh.Thorough() {
		step = 1
	}
	total, types := 0, map[string]bool{}
	for i := sh; i < len(ins); i += nsh {
		if (i/nsh)%step != 0 {
			continue
		}
		in := ins[i]
		types[in.typ] = true
		S.Current("TestDecode", &Case{Entry: "dfb", Type: in.typ, Data: in.data})
		var bad []byte
		var n int
		S.Guard("TestDecode", "sweep:"+in.typ, &Case{Entry: "dfb", Type: in.typ, Data: in.data}, 60*time.Second, func() { bad, n = sweepOne(in) })
		total += n
		S.Note(vh.Hash64("sweep", in.typ, in.data), true, "entry:layer-sweep")
		if bad != nil {
			check(t, &Case{Entry: "dfb", Type: in.typ, Data: bad}) // re-run alone: reports with the usual key and replay file
			if t.Failed() {
				return
			}
		}
	}
	S.Class("layer-sweep-variants", int64(total))
	S.Extra("layer_sweep_instances", len(ins))
	S.Extra("layer_sweep_types", len(types))
}

// TestStackSweep applies the same sweep to the layers of generated protocol stacks (IPv4/TCP options, IPv6
// destination options, neighbour-discovery options, DNS records, GRE, ...), which the repository's own packets
// cover thinly. Instances already swept in this process are skipped; at most 60 per layer type.
func TestStackSweep(t *testing.T) {
	seen := map[uint64]bool{}
	perType := map[string]int{}
	total := 0
	rapid.Check(t, func(rt *rapid.T) {
		st := gen.Stack(rt)
		if st.Err != nil || len(st.Bytes) == 0 || len(st.Bytes) > 4000 {
			return
		}
		p := gopacket.NewPacket(st.Bytes, st.First, gopacket.DecodeOptions{NoCopy: true})
		for _, l := range p.Layers() {
			rtp := reflect.TypeOf(l)
			if rtp.Kind() != reflect.Ptr {
				continue
			}
			name := rtp.Elem().Name()
			if _, ok := dlByName[name]; !ok {
				continue
			}
			c := l.LayerContents()
			if len(c) == 0 || len(c) > 96 || perType[name] >= 60 {
				continue
			}
			h := vh.Hash64(name, c)
			if seen[h] {
				continue
			}
			seen[h] = true
			perType[name]++
			in := instance{name, append([]byte(nil), c...)}
			S.Current("TestDecode", &Case{Entry: "dfb", Type: in.typ, Data: in.data})
			var bad []byte
			var n int
			S.Guard("TestDecode", "sweep:"+in.typ, &Case{Entry: "dfb", Type: in.typ, Data: in.data}, 60*time.Second, func() { bad, n = sweepOne(in) })
			total += n
			S.Note(vh.Hash64("stacksweep", in.typ, in.data), true, "entry:stack-sweep")
			if bad != nil {
				check(rt, &Case{Entry: "dfb", Type: in.typ, Data: bad})
			}
		}
	})
	S.Class("stack-sweep-variants", int64(total))
}
