package c19

import (
	"reflect"
	"testing"
	"time"

	"github.com/gopacket/gopacket"
	"pgregory.net/rapid"

	"verifharness/internal/corpus"
	"verifharness/internal/gen"
	"verifharness/internal/inst"
	"verifharness/internal/registry"
	"verifharness/internal/vh"
)

// Layer-instance sweep: option/TLV parsers fail in a tiny region of the input space (a length byte that ends
// one short, a type byte as the very last byte of an options area) that random mutation of whole packets
// rarely hits. The sweep takes every layer of every corpus packet as the input of its own in-place decoder —
// the layer's header bytes alone, so that the end of the input is the end of the options area, and with its
// payload — and tries, deterministically: every truncation, every single byte set to each of 8 boundary
// values, and every pair of bytes within distance 3 inside the first and the last 6 bytes set to each
// combination of those values.

type instance struct {
	typ  string
	data []byte
}

func layerInstances() []instance {
	var out []instance
	for _, in := range inst.Collect(96, 0) {
		if _, ok := dlByName[in.Type]; ok {
			out = append(out, instance{in.Type, in.Data})
		}
	}
	return out
}

// sweepOne runs all variants of one instance through its in-place decoder; it returns the first failing variant, if any.
func sweepOne(in instance) (bad []byte, n int) {
	t, ok := dlByName[in.typ]
	if !ok {
		return nil, 0
	}
	var cur []byte
	pv, _ := vh.Recover(func() {
		inst.Variants(in.data, func(d []byte) {
			cur = d
			n++
			bd := t.New().(registry.ByteDecoder)
			if err := bd.DecodeFromBytes(d, gopacket.NilDecodeFeedback); err == nil {
				if dl, ok := bd.(gopacket.DecodingLayer); ok {
					_ = dl.NextLayerType()
					_ = dl.LayerPayload()
				}
			}
		})
	})
	if pv != nil {
		return append([]byte(nil), cur...), n
	}
	return nil, n
}

func TestLayerSweep(t *testing.T) {
	if len(corpus.Seeds()) == 0 {
		t.Skip("no corpus")
	}
	all := layerInstances()
	sh, nsh := vh.Shard()
	// quick: the first 6 instances of every type and every 8th after that; thorough: all
	var ins []instance
	nth := map[string]int{}
	for _, in := range all {
		k := nth[in.typ]
		nth[in.typ]++
		if vh.Thorough() || k < 6 || k%8 == 0 {
			ins = append(ins, in)
		}
	}
	total, types := 0, map[string]bool{}
	for i := sh; i < len(ins); i += nsh {
		in := ins[i]
		types[in.typ] = true
		S.Current("TestDecode", &Case{Entry: "dfb", Type: in.typ, Data: in.data})
		var bad []byte
		var n int
		S.Guard("TestDecode", "sweep:"+in.typ, &Case{Entry: "dfb", Type: in.typ, Data: in.data}, 60*time.Second, func() { bad, n = sweepOne(in) })
		total += n
		S.Note(vh.Hash64("sweep", in.typ, in.data), true, "entry:layer-sweep")
		if bad != nil {
			check(t, &Case{Entry: "dfb", Type: in.typ, Data: bad}) // re-run alone: reports with the usual key and replay file
			if t.Failed() {
				return
			}
		}
	}
	S.Class("layer-sweep-variants", int64(total))
	S.Extra("layer_sweep_instances", len(all))
	S.Extra("layer_sweep_types", len(types))
}

// TestStackSweep applies the same sweep to the layers of generated protocol stacks (IPv4/TCP options, IPv6
// destination options, neighbour-discovery options, DNS records, GRE, ...), which the repository's own packets
// cover thinly. Instances already swept in this process are skipped; at most 60 per layer type.
func TestStackSweep(t *testing.T) {
	seen := map[uint64]bool{}
	perType := map[string]int{}
	total := 0
	rapid.Check(t, func(rt *rapid.T) {
		st := gen.Stack(rt)
		if st.Err != nil || len(st.Bytes) == 0 || len(st.Bytes) > 4000 {
			return
		}
		p := gopacket.NewPacket(st.Bytes, st.First, gopacket.DecodeOptions{NoCopy: true})
		for _, l := range p.Layers() {
			rtp := reflect.TypeOf(l)
			if rtp.Kind() != reflect.Ptr {
				continue
			}
			name := rtp.Elem().Name()
			if _, ok := dlByName[name]; !ok {
				continue
			}
			c := l.LayerContents()
			if len(c) == 0 || len(c) > 96 || perType[name] >= 60 {
				continue
			}
			h := vh.Hash64(name, c)
			if seen[h] {
				continue
			}
			seen[h] = true
			perType[name]++
			in := instance{name, append([]byte(nil), c...)}
			S.Current("TestDecode", &Case{Entry: "dfb", Type: in.typ, Data: in.data})
			var bad []byte
			var n int
			S.Guard("TestDecode", "sweep:"+in.typ, &Case{Entry: "dfb", Type: in.typ, Data: in.data}, 60*time.Second, func() { bad, n = sweepOne(in) })
			total += n
			S.Note(vh.Hash64("stacksweep", in.typ, in.data), true, "entry:stack-sweep")
			if bad != nil {
				check(rt, &Case{Entry: "dfb", Type: in.typ, Data: bad})
			}
		}
	})
	S.Class("stack-sweep-variants", int64(total))
}
