package c19

import (
	"testing"

	"verifharness/internal/corpus"
	"verifharness/internal/registry"
)

// FuzzDecode is the coverage-guided entry (thorough tier): the first two bytes select entry point and type, the
// rest is the packet. The oracle is runCase (no panic with recovery off, bounded allocation).
func FuzzDecode(f *testing.F) {
	seeds := corpus.Seeds()
	for i := 0; i < len(seeds); i += 7 {
		if len(seeds[i]) < 600 {
			f.Add(byte(i), byte(i>>8), seeds[i])
		}
	}
	fl := registry.FirstLayers()
	f.Fuzz(func(t *testing.T, a, b byte, data []byte) {
		c := &Case{Data: data}
		switch a % 4 {
		case 0, 1:
			c.Entry = "dfb"
			c.Type = dlTypes[(int(b)+int(a/4)*256)%len(dlTypes)].Name
		case 2:
			c.Entry = "packet"
			lt := fl[(int(b)+int(a/4)*256)%len(fl)]
			c.LT, c.Type = int(lt), lt.String()
			c.Lazy = a&64 != 0
		default:
			c.Entry = "parser-all"
			lt := fl[(int(b)+int(a/4)*256)%len(fl)]
			c.LT, c.Type = int(lt), lt.String()
		}
		if len(data) > 1<<16 {
			return
		}
		fl, _ := runCase(c)
		S.Check(t, "TestDecode", c, fl) // writes the replay file; the input go-fuzz saves is only a by-product
	})
}
