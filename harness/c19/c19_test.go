// Package c19 checks property C19: decoders return errors, not panics, even with panic recovery switched
// off (DESIGN.md §5 C19). Oracle: the call returns; a panic, a run-away allocation or a hang is a violation.
package c19

import (
	"encoding/json"
	"fmt"
	"runtime/metrics"
	"testing"
	"time"

	"github.com/gopacket/gopacket"
	"github.com/gopacket/gopacket/layers"
	"pgregory.net/rapid"

	"verifharness/internal/corpus"
	"verifharness/internal/gen"
	"verifharness/internal/registry"
	"verifharness/internal/vh"
)

var S = vh.New("C19")

func TestMain(m *testing.M) { vh.Main(m, S) }

type Case struct {
	Entry   string `json:"entry"` // dfb | packet | parser-core | parser-all
	Type    string `json:"type"`  // struct type name (dfb) or first layer type name
	LT      int    `json:"lt"`    // first layer type number (packet / parser)
	Data    []byte `json:"data"`
	Lazy    bool   `json:"lazy,omitempty"`
	Streams bool   `json:"streams,omitempty"`
}

var allocSample = []metrics.Sample{{Name: "/gc/heap/allocs:bytes"}}

func allocated() uint64 {
	metrics.Read(allocSample)
	return allocSample[0].Value.Uint64()
}

var dlTypes = registry.ByteDecoders()
var dlByName = func() map[string]registry.Type {
	m := map[string]registry.Type{}
	for _, t := range dlTypes {
		m[t.Name] = t
	}
	return m
}()

func coreLayers() []gopacket.DecodingLayer {
	var pl gopacket.Payload
	return []gopacket.DecodingLayer{&layers.Ethernet{}, &layers.Dot1Q{}, &layers.IPv4{}, &layers.IPv6{}, &layers.TCP{}, &layers.UDP{}, &layers.ICMPv4{}, &layers.ICMPv6{}, &layers.DNS{}, &pl}
}

func allLayers() []gopacket.DecodingLayer {
	var out []gopacket.DecodingLayer
	for _, t := range dlTypes {
		if dl, ok := t.New().(gopacket.DecodingLayer); ok {
			out = append(out, dl)
		}
	}
	return out
}

type result struct {
	progressed bool
	layers     int
}

func runCase(c *Case) (f *vh.Failure, res result) {
	S.Guard("TestDecode", c.Entry+":"+c.Type, c, 20*time.Second, func() { f, res = runCase1(c) })
	return
}

func runCase1(c *Case) (f *vh.Failure, res result) {
	before := allocated()
	pv, stack := vh.Recover(func() {
		switch c.Entry {
		case "dfb":
			t, ok := dlByName[c.Type]
			if !ok {
				return // type no longer exists in the tree under test
			}
			bd := t.New().(registry.ByteDecoder)
			err := bd.DecodeFromBytes(c.Data, gopacket.NilDecodeFeedback)
			if err == nil {
				res.progressed = true
				if dl, ok := bd.(gopacket.DecodingLayer); ok {
					// what a layer parser calls next
					_ = dl.NextLayerType()
					_ = dl.LayerPayload()
					_ = dl.CanDecode()
				}
			}
		case "packet":
			p := gopacket.NewPacket(c.Data, gopacket.LayerType(c.LT), gopacket.DecodeOptions{SkipDecodeRecovery: true, Lazy: c.Lazy, DecodeStreamsAsDatagrams: c.Streams})
			res.layers = len(p.Layers())
			res.progressed = res.layers >= 1 && p.ErrorLayer() == nil || res.layers >= 2
		case "parser-core", "parser-all":
			var ls []gopacket.DecodingLayer
			if c.Entry == "parser-core" {
				ls = coreLayers()
			} else {
				ls = allLayers()
			}
			parser := gopacket.NewDecodingLayerParser(gopacket.LayerType(c.LT), ls...)
			parser.IgnorePanic = true
			parser.IgnoreUnsupported = true
			var decoded []gopacket.LayerType
			_ = parser.DecodeLayers(c.Data, &decoded)
			res.layers = len(decoded)
			res.progressed = len(decoded) >= 1
		}
	})
	if pv != nil {
		fn, where := vh.InnermostRepoFunc(stack)
		res.progressed = true
		return vh.Failf("panic:"+fn, "%s %s on %d bytes: panic %v at %s", c.Entry, c.Type, len(c.Data), pv, where), res
	}
	if d := allocated() - before; d > 1<<30 && len(c.Data) <= 1<<16 {
		return vh.Failf("alloc:"+c.Entry+":"+c.Type, "%s %s on %d bytes allocated %d MiB", c.Entry, c.Type, len(c.Data), d>>20), res
	} else if d > 64<<20 {
		S.Class("alloc>64MiB:"+c.Type, 1)
	}
	return nil, res
}

func genCase(t *rapid.T, entries []string) *Case {
	c := &Case{Entry: rapid.SampledFrom(entries).Draw(t, "entry")}
	switch c.Entry {
	case "dfb":
		c.Type = dlTypes[rapid.IntRange(0, len(dlTypes)-1).Draw(t, "type")].Name
	case "packet":
		fl := registry.FirstLayers()
		lt := fl[rapid.IntRange(0, len(fl)-1).Draw(t, "first")]
		c.LT, c.Type = int(lt), lt.String()
		c.Lazy = rapid.Bool().Draw(t, "lazy")
		c.Streams = rapid.Bool().Draw(t, "streams")
	case "parser-core":
		lt := rapid.SampledFrom([]gopacket.LayerType{layers.LayerTypeEthernet, layers.LayerTypeEthernet, layers.LayerTypeIPv4, layers.LayerTypeIPv6, layers.LayerTypeTCP, layers.LayerTypeUDP, layers.LayerTypeDNS}).Draw(t, "first")
		c.LT, c.Type = int(lt), lt.String()
	default:
		fl := registry.FirstLayers()
		lt := fl[rapid.IntRange(0, len(fl)-1).Draw(t, "first")]
		if rapid.Bool().Draw(t, "eth") {
			lt = layers.LayerTypeEthernet
		}
		c.LT, c.Type = int(lt), lt.String()
	}
	c.Data, _ = gen.Bytes(t)
	if c.Entry != "dfb" && rapid.IntRange(0, 7).Draw(t, "suffix") == 0 {
		if b, slt, ok := gen.StackSuffix(t); ok {
			c.LT, c.Type, c.Data = int(slt), slt.String(), gen.Mutate(t, b)
		}
	}
	return c
}

func check(t vh.TB, c *Case) {
	S.Current("TestDecode", c)
	f, res := runCase(c)
	S.Note(vh.Hash64(c.Entry, c.Type, c.Data, c.Lazy, c.Streams), res.progressed, "entry:"+c.Entry)
	if res.progressed && len(c.Data) < 200 && S.WantSample() {
		S.Sample(c)
	}
	S.Check(t, "TestDecode", c, f)
}

func TestDecode(t *testing.T) {
	rapid.Check(t, func(rt *rapid.T) {
		check(rt, genCase(rt, []string{"dfb", "dfb", "packet", "packet", "parser-core", "parser-all"}))
	})
}

// TestSeeds: every corpus seed (incl. the repository's own out-of-bounds regression inputs), truncated at every
// length up to 64 and at 8 spread lengths beyond, through every entry point with the matching first layers.
func TestSeeds(t *testing.T) {
	seeds := corpus.Seeds()
	if len(seeds) == 0 {
		t.Skip("no corpus")
	}
	sh, nsh := vh.Shard()
	firsts := []gopacket.LayerType{layers.LayerTypeEthernet, layers.LayerTypeIPv4, layers.LayerTypeIPv6, layers.LayerTypeTCP, layers.LayerTypeUDP, layers.LayerTypeDNS, layers.LayerTypeDot11, layers.LayerTypeRadioTap, layers.LayerTypeLinuxSLL, layers.LayerTypeSCTP}
	step := 160
	if vh.Thorough() {
		step = 4
	}
	n := 0
	for i := sh * step; i < len(seeds); i += step * nsh {
		s := seeds[i]
		cuts := []int{len(s)}
		for k := 0; k < len(s) && k <= 64; k += 3 {
			cuts = append(cuts, k)
		}
		for k := 1; k < 8; k++ {
			cuts = append(cuts, len(s)*k/8)
		}
		for _, cut := range cuts {
			d := s[:cut]
			for _, lt := range firsts {
				check(t, &Case{Entry: "packet", Type: lt.String(), LT: int(lt), Data: d, Streams: cut%2 == 0})
				check(t, &Case{Entry: "parser-all", Type: lt.String(), LT: int(lt), Data: d})
				n += 2
			}
			if t.Failed() {
				return
			}
		}
	}
	// each seed as each in-place decoder (full length only)
	for i := sh * step * 4; i < len(seeds); i += step * 4 * nsh {
		for _, ty := range dlTypes {
			check(t, &Case{Entry: "dfb", Type: ty.Name, Data: seeds[i]})
			n++
		}
		if t.Failed() {
			return
		}
	}
	S.Extra("seed_cases_total", n)
}

func TestRegress(t *testing.T) {
	S.Regress(t, func(rf *vh.ReplayFile) (bool, *vh.Failure) {
		var c Case
		if err := json.Unmarshal(rf.Case, &c); err != nil {
			t.Fatal(err)
		}
		f, _ := runCase(&c)
		return true, f
	})
}

var _ = fmt.Sprint
