// Package c16 checks property C16: a PacketSource delivers each packet once, in order, intact, and
// shuts down cleanly (DESIGN.md §5 C16). Scripts are drawn first and executed inside a testing/synctest
// bubble (fake clock, exact "all goroutines blocked" detection).
package c16

import (
	"bytes"
	"context"
	"encoding/json"
	"errors"
	"fmt"
	"io"
	"os"
	"reflect"
	"strings"
	"sync/atomic"
	"syscall"
	"testing"
	"testing/synctest"
	"time"

	"github.com/gopacket/gopacket"
	"pgregory.net/rapid"

	"verifharness/internal/vh"
)

var S = vh.New("C16")

func TestMain(m *testing.M) { vh.Main(m, S) }

// Ev is one data-source event.
type Ev struct {
	K    string `json:"k"` // packet | timeout | transient | terminal | block
	Len  int    `json:"len,omitempty"`
	Wire int    `json:"wire,omitempty"` // ci.Length (>= Len)
	Term string `json:"term,omitempty"`
	N    int    `json:"n,omitempty"` // repeat count for packet runs (compact scripts > 1000 packets)
}

type Case struct {
	Events   []Ev   `json:"events"`
	ZeroCopy bool   `json:"zero_copy"`
	Lazy     bool   `json:"lazy"`
	NoCopy   bool   `json:"no_copy"`
	Pool     bool   `json:"pool"`
	Streams  bool   `json:"streams_as_datagrams"`
	Iface    string `json:"iface"` // pull | chan
	DelayMs  int    `json:"delay_ms"`
	CancelAt int    `json:"cancel_at"` // chan: cancel before receiving packet number k (-1 never)
	Stall    bool   `json:"stall"`     // chan: consumer sleeps a long time first so the channel fills
	Twice    bool   `json:"twice"`     // call Packets() a second time
	// Concat: the script is served by ConcatFinitePacketDataSources over several member sources; a "memberend" event
	// (Term eof | wrapped-eof) ends the current member, the next member continues the script
	Concat bool `json:"concat,omitempty"`
}

type timeoutErr struct{}

func (timeoutErr) Error() string   { return "i/o timeout" }
func (timeoutErr) Timeout() bool   { return true }
func (timeoutErr) Temporary() bool { return true }

func termErr(kind string) error {
	switch kind {
	case "eof":
		return io.EOF
	case "unexpected":
		return io.ErrUnexpectedEOF
	case "closedpipe":
		return io.ErrClosedPipe
	case "ebadf":
		return syscall.EBADF
	case "wrapped-eof":
		return fmt.Errorf("reading: %w", io.EOF)
	case "closedfile":
		return errors.New("read /dev/x: use of closed file")
	case "pathclosed":
		return &os.PathError{Op: "read", Path: "x", Err: os.ErrClosed}
	}
	return io.EOF
}

func pattern(idx, n int) []byte {
	b := make([]byte, n)
	for i := range b {
		b[i] = byte(idx*7+i*3+1) | 1
	}
	return b
}

type want struct {
	idx  int
	data []byte
	ci   gopacket.CaptureInfo
}

type src struct {
	c                *Case
	evs              []Ev // expanded
	i                int
	npk              int
	ctx              context.Context
	readsAfterCancel int
	buf              []byte
	release          chan struct{}
	blocked          atomic.Bool
	totalReads       int
	runaway          atomic.Bool
	produced         []want
	terminalSeen     bool
	readsAfterTerm   int
	chained          bool
	curMember        int // Concat: index of the member source that serves the script right now
}

// member is one of the finite sources handed to ConcatFinitePacketDataSources: all members share the script; member k
// serves it between the (k-1)th and kth "memberend" event and reports end of input (sticky) from then on.
type member struct {
	s *src
	k int
}

func (m *member) ReadPacketData() ([]byte, gopacket.CaptureInfo, error) {
	if m.k != m.s.curMember {
		return nil, gopacket.CaptureInfo{}, io.EOF
	}
	return m.s.read()
}

func expand(c *Case) []Ev {
	var out []Ev
	for _, e := range c.Events {
		n := max(e.N, 1)
		for k := 0; k < n; k++ {
			out = append(out, Ev{K: e.K, Len: e.Len, Wire: e.Wire, Term: e.Term})
		}
	}
	return out
}

func (s *src) read() ([]byte, gopacket.CaptureInfo, error) {
	if s.ctx != nil && s.ctx.Err() != nil && !s.chained {
		s.readsAfterCancel++
	}
	s.chained = false
	if s.terminalSeen {
		s.readsAfterTerm++
	}
	s.totalReads++
	if s.totalReads > len(s.evs)*2+4000 {
		// the reader keeps polling a source that reported its end long ago (or ignores cancellation): park it so the
		// bubble can finish, and report
		s.runaway.Store(true)
		<-make(chan struct{})
	}
	for {
		if s.i >= len(s.evs) {
			s.terminalSeen = true
			return nil, gopacket.CaptureInfo{}, io.EOF
		}
		ev := s.evs[s.i]
		s.i++
		switch ev.K {
		case "block":
			if s.c.Iface == "pull" {
				continue // a pull consumer has nobody to release it
			}
			s.release = make(chan struct{})
			s.blocked.Store(true)
			<-s.release
			s.blocked.Store(false)
			continue
		case "memberend":
			if !s.c.Concat {
				continue
			}
			s.curMember++
			s.chained = true // the concatenation goes on to the next member within the same outer read
			return nil, gopacket.CaptureInfo{}, termErr(ev.Term)
		case "timeout":
			return nil, gopacket.CaptureInfo{}, timeoutErr{}
		case "transient":
			return nil, gopacket.CaptureInfo{}, errors.New("transient failure")
		case "terminal":
			s.terminalSeen = true
			return nil, gopacket.CaptureInfo{}, termErr(ev.Term)
		default:
			d := pattern(s.npk, ev.Len)
			ci := gopacket.CaptureInfo{Timestamp: time.Unix(int64(1000+s.npk), 0), CaptureLength: ev.Len, Length: max(ev.Wire, ev.Len), InterfaceIndex: s.npk % 3}
			s.produced = append(s.produced, want{s.npk, d, ci})
			s.npk++
			if s.c.ZeroCopy {
				// one reused buffer: wipe with junk, then write this packet
				for i := range s.buf {
					s.buf[i] = 0xEE
				}
				copy(s.buf, d)
				return s.buf[:len(d)], ci, nil
			}
			return d, ci, nil
		}
	}
}

func (s *src) ReadPacketData() ([]byte, gopacket.CaptureInfo, error)         { return s.read() }
func (s *src) ZeroCopyReadPacketData() ([]byte, gopacket.CaptureInfo, error) { return s.read() }

type zsrc struct{ *src }

type got struct {
	p     gopacket.Packet
	data  []byte // copy of Data() at delivery
	ci    gopacket.CaptureInfo
	trunc bool
}

func runCase(t *testing.T, c *Case) (f *vh.Failure) {
	evs := expand(c)
	s := &src{c: c, evs: evs, buf: make([]byte, 2048)}
	var gots []got
	var errsSeen []string
	var closedSeen, refused, waitedTooLong bool
	allowedAfterCancel := -1
	var problems []string
	var panicked any
	func() {
		defer func() {
			if r := recover(); r != nil {
				panicked = r
			}
		}()
		synctest.Test(t, func(t *testing.T) {
			var opts []gopacket.PacketSourceOption
			if c.Lazy {
				opts = append(opts, gopacket.WithLazy(true))
			}
			if c.NoCopy {
				opts = append(opts, gopacket.WithNoCopy(true))
			}
			if c.Pool {
				opts = append(opts, gopacket.WithPool(true))
			}
			if c.Streams {
				opts = append(opts, gopacket.WithDecodeStreamsAsDatagrams(true))
			}
			var ps *gopacket.PacketSource
			if c.ZeroCopy {
				ps = gopacket.NewZeroCopyPacketSource(s, gopacket.DecodePayload, opts...)
			} else if c.Concat {
				var ms []gopacket.PacketDataSource
				ms = append(ms, &member{s, 0})
				for _, e := range evs {
					if e.K == "memberend" {
						ms = append(ms, &member{s, len(ms)})
					}
				}
				ps = gopacket.NewPacketSource(gopacket.ConcatFinitePacketDataSources(ms...), gopacket.DecodePayload, opts...)
			} else {
				ps = gopacket.NewPacketSource(s, gopacket.DecodePayload, opts...)
			}
			take := func(p gopacket.Packet) {
				g := got{p: p, data: append([]byte(nil), p.Data()...), ci: p.Metadata().CaptureInfo, trunc: p.Metadata().Truncated}
				gots = append(gots, g)
			}
			if c.Iface == "pull" {
				for n := 0; n < len(evs)+3; n++ {
					p, err := ps.NextPacket()
					if err != nil {
						errsSeen = append(errsSeen, err.Error())
						if s.terminalSeen {
							break
						}
						continue
					}
					take(p)
				}
				return
			}
			ctx, cancel := context.WithCancel(context.Background())
			defer cancel()
			s.ctx = ctx
			if c.CancelAt == 0 {
				cancel()
			}
			var ch chan gopacket.Packet
			func() {
				defer func() {
					if r := recover(); r != nil {
						refused = true
					}
				}()
				ch = ps.PacketsCtx(ctx)
			}()
			if refused || ch == nil {
				refused = true
				return
			}
			if c.Twice {
				if ch2 := ps.Packets(); ch2 != ch {
					problems = append(problems, "second Packets() call returned a different channel")
				}
			}
			cancelled := c.CancelAt == 0
			// noteCancel: once the reader has settled after the cancellation, only what is already buffered (plus the
			// packet of a read that was in flight) may still be delivered
			noteCancel := func() {
				synctest.Wait()
				allowedAfterCancel = len(gots) + len(ch)
				if s.blocked.Load() {
					allowedAfterCancel++
				}
			}
			if cancelled {
				noteCancel()
			}
			if c.Stall {
				time.Sleep(time.Hour) // consumer stalls: the 1000-slot channel fills up
			}
			for k := 0; ; k++ {
				if c.CancelAt == k && !cancelled {
					cancel()
					cancelled = true
					noteCancel()
				}
				if c.DelayMs > 0 {
					time.Sleep(time.Duration(c.DelayMs) * time.Millisecond)
				}
				var p gopacket.Packet
				var ok bool
				idle := 0
			recv:
				for {
					// let the reader run until it is blocked (in a source read, on the full channel, in its retry sleep) or gone
					synctest.Wait()
					if s.runaway.Load() {
						return
					}
					if s.blocked.Load() && len(ch) == 0 {
						// the reader sits in a blocking read and nothing is buffered: a consumer that wants to stop
						// cancels now ("cancel while the reader is blocked in a read"); then the read returns
						if c.CancelAt >= 0 && !cancelled {
							cancel()
							cancelled = true
							noteCancel()
						}
						close(s.release)
					}
					select {
					case p, ok = <-ch:
						break recv
					case <-time.After(time.Millisecond):
						idle++
						if idle > 200000 { // 200 s of fake time without a packet or a close
							waitedTooLong = true
							return
						}
					}
				}
				if !ok {
					closedSeen = true
					break
				}
				take(p)
			}
		})
	}()
	if s.runaway.Load() {
		return vh.Failf("shutdown:runaway-reads", "the data source was read %d times (script has %d events): the reader does not stop after the terminal error / cancellation; %d packets received", s.totalReads, len(evs), len(gots))
	}
	if panicked != nil {
		msg := fmt.Sprint(panicked)
		if strings.Contains(msg, "deadlock") {
			return vh.Failf("shutdown:deadlock", "consumer waits forever: the channel was never closed / reader goroutine stuck (%s); %d packets received", msg, len(gots))
		}
		return vh.Failf("panic", "%s", msg)
	}
	if waitedTooLong {
		return vh.Failf("shutdown:not-closed", "consumer waited 200 s (fake time) after %d packets: the channel was neither fed nor closed", len(gots))
	}
	if allowedAfterCancel >= 0 && len(gots) > allowedAfterCancel {
		return vh.Failf("shutdown:delivered-after-cancel", "%d packets delivered in total, but once the reader had settled after the cancellation only %d could legitimately arrive (buffered + in-flight read)", len(gots), allowedAfterCancel)
	}
	if len(problems) > 0 {
		return vh.Failf("channel-identity", "%s", strings.Join(problems, "; "))
	}
	if c.Iface == "chan" && c.ZeroCopy && c.NoCopy {
		if !refused {
			return vh.Failf("zerocopy-nocopy-not-refused", "zero-copy data source with NoCopy decoding on the channel interface was accepted (%d packets delivered)", len(gots))
		}
		return nil
	}
	if refused {
		return vh.Failf("refused-valid-config", "PacketsCtx panicked for a valid configuration")
	}
	// expected packets: all script packets before the terminal event
	var exp []want
	{
		idx := 0
		for _, e := range evs {
			if e.K == "terminal" {
				break
			}
			if e.K == "packet" {
				ci := gopacket.CaptureInfo{Timestamp: time.Unix(int64(1000+idx), 0), CaptureLength: e.Len, Length: max(e.Wire, e.Len), InterfaceIndex: idx % 3}
				exp = append(exp, want{idx, pattern(idx, e.Len), ci})
				idx++
			}
		}
	}
	cancelledRun := c.Iface == "chan" && c.CancelAt >= 0
	if c.Iface == "chan" && !closedSeen {
		return vh.Failf("shutdown:not-closed", "channel not closed")
	}
	if cancelledRun {
		if len(gots) > len(exp) {
			return vh.Failf("delivery:extra", "%d packets delivered, script has %d", len(gots), len(exp))
		}
		if len(gots) > len(s.produced) {
			return vh.Failf("delivery:more-than-read", "%d packets delivered but only %d were read from the source", len(gots), len(s.produced))
		}
		if s.readsAfterCancel > 1 {
			return vh.Failf("shutdown:reads-after-cancel", "%d reads were started after the context was cancelled (at most the in-flight one may complete)", s.readsAfterCancel)
		}
	} else if len(gots) != len(exp) {
		return vh.Failf("delivery:count", "%d packets delivered, expected %d (errors seen: %v)", len(gots), len(exp), errsSeen)
	}
	if c.Iface == "chan" && s.readsAfterTerm > 0 {
		return vh.Failf("shutdown:read-after-terminal", "data source was read %d more times after its terminal error", s.readsAfterTerm)
	}
	for i, g := range gots {
		e := exp[i]
		if !bytes.Equal(g.data, e.data) {
			return vh.Failf("delivery:order-or-content", "packet %d: data at delivery %x, expected %x (lost, duplicated or reordered?)", i, trunc(g.data), trunc(e.data))
		}
		if !reflect.DeepEqual(g.ci, e.ci) {
			return vh.Failf("metadata:captureinfo", "packet %d: CaptureInfo %+v, source returned %+v", i, g.ci, e.ci)
		}
		if g.trunc != (e.ci.CaptureLength < e.ci.Length) {
			return vh.Failf("metadata:truncated", "packet %d: Truncated=%v but CaptureLength=%d Length=%d", i, g.trunc, e.ci.CaptureLength, e.ci.Length)
		}
		// later reads must not have altered the delivered packet (pull + zero-copy + NoCopy is the caller's
		// responsibility and is only judged at delivery)
		if !(c.ZeroCopy && c.NoCopy) {
			if !bytes.Equal(g.p.Data(), e.data) {
				return vh.Failf("delivery:altered-later", "packet %d: Data() changed after later reads: %x, expected %x", i, trunc(g.p.Data()), trunc(e.data))
			}
			if l := g.p.Layers(); len(e.data) > 0 && (len(l) != 1 || !bytes.Equal(l[0].LayerContents(), e.data)) {
				return vh.Failf("delivery:altered-later", "packet %d: decoded layer differs from the data after later reads", i)
			}
		}
	}
	if c.Iface == "pull" {
		// every script error must have been surfaced, in order
		var wantErrs []string
		for _, e := range evs {
			switch e.K {
			case "timeout":
				wantErrs = append(wantErrs, timeoutErr{}.Error())
			case "transient":
				wantErrs = append(wantErrs, "transient failure")
			case "terminal":
				if c.Concat && !c.ZeroCopy && errors.Is(termErr(e.Term), io.EOF) {
					// the last member's end of input: the concatenation reports its own io.EOF
					wantErrs = append(wantErrs, io.EOF.Error())
				} else {
					wantErrs = append(wantErrs, termErr(e.Term).Error())
				}
			}
			if e.K == "terminal" {
				break
			}
		}
		hasTerm := false
		for _, e := range evs {
			if e.K == "terminal" {
				hasTerm = true
			}
		}
		if !hasTerm {
			wantErrs = append(wantErrs, io.EOF.Error())
		}
		if fmt.Sprint(errsSeen) != fmt.Sprint(wantErrs) {
			return vh.Failf("pull:errors", "NextPacket errors %v, script errors %v", errsSeen, wantErrs)
		}
	}
	return nil
}

func trunc(b []byte) []byte {
	if len(b) > 24 {
		return b[:24]
	}
	return b
}

func genCase(t *rapid.T) *Case {
	c := &Case{CancelAt: -1}
	c.Iface = rapid.SampledFrom([]string{"chan", "chan", "pull"}).Draw(t, "iface")
	c.ZeroCopy = rapid.Bool().Draw(t, "zerocopy")
	c.Lazy = rapid.Bool().Draw(t, "lazy")
	c.NoCopy = rapid.IntRange(0, 3).Draw(t, "nocopy") == 0
	c.Pool = rapid.IntRange(0, 3).Draw(t, "pool") == 0
	c.Streams = rapid.Bool().Draw(t, "streams")
	big := c.Iface == "chan" && rapid.IntRange(0, 11).Draw(t, "big") == 0
	n := rapid.IntRange(0, 12).Draw(t, "nevents")
	for i := 0; i < n; i++ {
		switch rapid.IntRange(0, 9).Draw(t, "evkind") {
		case 0:
			c.Events = append(c.Events, Ev{K: "timeout"})
		case 1:
			c.Events = append(c.Events, Ev{K: "transient"})
		case 2:
			if c.Iface == "chan" && rapid.Bool().Draw(t, "useblock") {
				c.Events = append(c.Events, Ev{K: "block"})
			}
		default:
			l := rapid.SampledFrom([]int{0, 1, 14, 60, 1500, 2000}).Draw(t, "len")
			w := l
			if rapid.IntRange(0, 2).Draw(t, "trunc") == 0 {
				w = l + rapid.IntRange(1, 100).Draw(t, "extra")
			}
			c.Events = append(c.Events, Ev{K: "packet", Len: l, Wire: w})
		}
	}
	if big {
		at := rapid.IntRange(0, len(c.Events)).Draw(t, "bigat")
		run := Ev{K: "packet", Len: 8, Wire: 8, N: rapid.IntRange(990, 1100).Draw(t, "run")}
		c.Events = append(c.Events[:at], append([]Ev{run}, c.Events[at:]...)...)
		c.Stall = rapid.Bool().Draw(t, "stall")
	}
	if !c.ZeroCopy && rapid.IntRange(0, 2).Draw(t, "concat") == 0 {
		// serve the script through ConcatFinitePacketDataSources: 1..3 member boundaries anywhere in the script
		// (also first/last: empty members), each member ending with io.EOF or an error wrapping it
		c.Concat = true
		for k := rapid.IntRange(1, 3).Draw(t, "members"); k > 0; k-- {
			at := rapid.IntRange(0, len(c.Events)).Draw(t, "memberat")
			end := Ev{K: "memberend", Term: rapid.SampledFrom([]string{"eof", "eof", "wrapped-eof"}).Draw(t, "memberterm")}
			c.Events = append(c.Events[:at], append([]Ev{end}, c.Events[at:]...)...)
		}
	}
	if rapid.IntRange(0, 3).Draw(t, "explicitterm") > 0 {
		c.Events = append(c.Events, Ev{K: "terminal", Term: rapid.SampledFrom([]string{"eof", "unexpected", "closedpipe", "ebadf", "wrapped-eof", "closedfile"}).Draw(t, "term")})
		// events after the terminal error must never be read on the channel interface
		if rapid.Bool().Draw(t, "tail") {
			c.Events = append(c.Events, Ev{K: "packet", Len: 5, Wire: 5})
		}
	}
	if c.Iface == "chan" {
		c.DelayMs = rapid.SampledFrom([]int{0, 0, 1, 7}).Draw(t, "delay")
		c.Twice = rapid.IntRange(0, 4).Draw(t, "twice") == 0
		if rapid.IntRange(0, 2).Draw(t, "cancel") == 0 {
			np := 0
			for _, e := range c.Events {
				if e.K == "packet" {
					np += max(e.N, 1)
				}
			}
			c.CancelAt = rapid.IntRange(0, min(np, 1200)+1).Draw(t, "cancelat")
		}
	}
	return c
}

func classify(c *Case) (bool, []string) {
	cls := []string{"iface:" + c.Iface}
	np, transientBetween := 0, false
	seenPacket := false
	pendingErr := false
	for _, e := range c.Events {
		switch e.K {
		case "packet":
			np += max(e.N, 1)
			if seenPacket && pendingErr {
				transientBetween = true
			}
			seenPacket = true
			pendingErr = false
			if e.N > 900 {
				cls = append(cls, "fills-channel")
			}
		case "timeout", "transient":
			pendingErr = true
			cls = append(cls, e.K)
		case "block":
			cls = append(cls, "blocking-read")
		case "terminal":
			cls = append(cls, "terminal:"+e.Term)
		case "memberend":
			if c.Concat {
				cls = append(cls, "concat", "concat-member-ends:"+e.Term)
			}
		}
	}
	if c.ZeroCopy {
		cls = append(cls, "zero-copy-source")
	}
	if c.ZeroCopy && c.NoCopy && c.Iface == "chan" {
		cls = append(cls, "zerocopy+nocopy-on-channel")
	}
	if c.CancelAt >= 0 {
		cls = append(cls, "cancel")
	}
	nt := np >= 3 && transientBetween || c.CancelAt >= 0
	seen := map[string]bool{}
	var out []string
	for _, k := range cls {
		if !seen[k] {
			seen[k] = true
			out = append(out, k)
		}
	}
	return nt, out
}

func TestScripts(t *testing.T) {
	rapid.Check(t, func(rt *rapid.T) {
		c := genCase(rt)
		nt, cls := classify(c)
		js, _ := json.Marshal(c)
		S.Note(vh.Hash64(js), nt, cls...)
		if nt && len(js) < 1200 && S.WantSample() {
			S.Sample(c)
		}
		S.Current("TestScripts", c)
		S.Check(rt, "TestScripts", c, runCase(t, c))
	})
}

func TestRegress(t *testing.T) {
	S.Regress(t, func(rf *vh.ReplayFile) (bool, *vh.Failure) {
		var c Case
		if err := json.Unmarshal(rf.Case, &c); err != nil {
			t.Fatal(err)
		}
		return true, runCase(t, &c)
	})
}
