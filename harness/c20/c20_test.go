// Package c20 checks property C20: the tcpreader ReaderStream returns exactly the delivered bytes and
// never wedges the assembler (DESIGN.md §5 C20). Both sides run inside a testing/synctest bubble, whose
// "all goroutines blocked" panic is an exact, timeout-free deadlock oracle.
package c20

import (
	"bytes"
	"encoding/json"
	"fmt"
	"io"
	"strings"
	"testing"
	"testing/synctest"

	"github.com/gopacket/gopacket"
	"github.com/gopacket/gopacket/layers"
	"github.com/gopacket/gopacket/tcpassembly"
	"github.com/gopacket/gopacket/tcpassembly/tcpreader"
	"pgregory.net/rapid"

	"verifharness/internal/tcpm"
	"verifharness/internal/vh"
)

var S = vh.New("C20")

func TestMain(m *testing.M) { vh.Main(m, S) }

// Elem is one Reassembly of a batch.
type Elem struct {
	Len  int `json:"len"`
	Skip int `json:"skip,omitempty"`
}

// Act is one consumer action.
type Act struct {
	K string `json:"k"` // read | close
	N int    `json:"n,omitempty"`
}

type Case struct {
	Batches    [][]Elem `json:"batches"`
	Acts       []Act    `json:"acts"`
	LossErrors bool     `json:"loss_errors"`
	Drain      bool     `json:"drain"` // after the script: read to EOF if not closed (else Close)
	DrainBuf   int      `json:"drain_buf"`
}

func content(off, n int) []byte {
	b := make([]byte, n)
	for i := range b {
		p := off + i
		b[i] = byte(p*13 + p>>8*5 + 1)
	}
	return b
}

type outcome struct {
	got        []byte
	lost       int
	lostBefore []int // number of bytes read when each DataLost was returned
	eof        bool
	closed     bool
	consumerOK bool
	producerOK bool
	errs       []string
}

// runCase executes both sides in a synctest bubble.
func runCase(t *testing.T, c *Case) *vh.Failure {
	var out outcome
	var all []byte
	type gap struct{ at int }
	var gaps []int // byte position (in the concatenation) of each non-empty element with Skip != 0
	ambiguous := 0
	off := 0
	for _, b := range c.Batches {
		for _, e := range b {
			if e.Skip != 0 {
				if e.Len > 0 {
					gaps = append(gaps, off)
				} else {
					ambiguous++
				}
			}
			all = append(all, content(off, e.Len)...)
			off += e.Len
		}
	}
	var panicked any
	func() {
		defer func() {
			if r := recover(); r != nil {
				panicked = r
			}
		}()
		synctest.Test(t, func(t *testing.T) {
			rs := tcpreader.NewReaderStream()
			rs.LossErrors = c.LossErrors
			prodDone := make(chan struct{})
			consDone := make(chan struct{})
			go func() { // assembler side
				defer close(prodDone)
				defer func() {
					if r := recover(); r != nil {
						out.errs = append(out.errs, fmt.Sprintf("producer panic: %v", r))
					}
				}()
				o := 0
				for _, b := range c.Batches {
					batch := make([]tcpassembly.Reassembly, len(b))
					for i, e := range b {
						batch[i] = tcpassembly.Reassembly{Bytes: content(o, e.Len), Skip: e.Skip}
						o += e.Len
					}
					rs.Reassembled(batch)
				}
				rs.ReassemblyComplete()
				out.producerOK = true
			}()
			go func() { // consumer side
				defer close(consDone)
				defer func() {
					if r := recover(); r != nil {
						out.errs = append(out.errs, fmt.Sprintf("consumer panic: %v", r))
					}
				}()
				read := func(n int) bool {
					buf := make([]byte, n)
					k, err := rs.Read(buf)
					if k < 0 || k > n {
						out.errs = append(out.errs, fmt.Sprintf("Read returned n=%d for a %d-byte buffer", k, n))
						return false
					}
					out.got = append(out.got, buf[:k]...)
					switch err {
					case nil:
					case io.EOF:
						if k != 0 {
							out.errs = append(out.errs, "EOF with n>0")
						}
						out.eof = true
						return false
					case tcpreader.DataLost:
						out.lost++
						out.lostBefore = append(out.lostBefore, len(out.got))
						if k != 0 {
							out.errs = append(out.errs, "DataLost with n>0")
						}
					default:
						out.errs = append(out.errs, "unexpected error "+err.Error())
						return false
					}
					return true
				}
				for _, a := range c.Acts {
					if a.K == "close" {
						if err := rs.Close(); err != nil {
							out.errs = append(out.errs, "Close: "+err.Error())
						}
						out.closed = true
						continue
					}
					if out.closed {
						// Read after Close must report EOF and deliver nothing
						buf := make([]byte, a.N)
						if k, err := rs.Read(buf); k != 0 || err != io.EOF {
							out.errs = append(out.errs, fmt.Sprintf("Read after Close returned (%d,%v)", k, err))
						}
						continue
					}
					if !read(a.N) && out.eof {
						break
					}
				}
				if !out.closed {
					if c.Drain {
						for i := 0; !out.eof && i < len(all)+len(c.Batches)*8+64; i++ {
							if !read(max(c.DrainBuf, 1)) {
								break
							}
						}
						// a further Read stays at EOF
						if out.eof {
							if k, err := rs.Read(make([]byte, 8)); k != 0 || err != io.EOF {
								out.errs = append(out.errs, fmt.Sprintf("Read after EOF returned (%d,%v)", k, err))
							}
						}
					} else {
						rs.Close()
						out.closed = true
					}
				}
				out.consumerOK = true
			}()
			<-prodDone
			<-consDone
		})
	}()
	if panicked != nil {
		msg := fmt.Sprint(panicked)
		if strings.Contains(msg, "deadlock") {
			return vh.Failf("deadlock", "assembler and consumer are both blocked forever (%s); bytes read so far %d, closed=%v", msg, len(out.got), out.closed)
		}
		return vh.Failf("panic", "panic: %s", msg)
	}
	if len(out.errs) > 0 {
		return vh.Failf("reader-error", "%s", strings.Join(out.errs, "; "))
	}
	if !out.producerOK || !out.consumerOK {
		return vh.Failf("not-terminated", "producer done=%v consumer done=%v", out.producerOK, out.consumerOK)
	}
	if !bytes.HasPrefix(all, out.got) {
		k := 0
		for k < len(out.got) && k < len(all) && out.got[k] == all[k] {
			k++
		}
		return vh.Failf("bytes", "bytes read are not a prefix of the delivered bytes: first difference at %d (read %d, delivered %d)", k, len(out.got), len(all))
	}
	if !out.closed {
		if !out.eof {
			return vh.Failf("no-eof", "consumer read everything but never got io.EOF")
		}
		if len(out.got) != len(all) {
			return vh.Failf("bytes-missing", "read %d bytes up to EOF, %d were delivered", len(out.got), len(all))
		}
		if c.LossErrors {
			if out.lost != len(gaps) {
				return vh.Failf("loss-count", "DataLost returned %d times, %d non-empty elements carried a skip (%d empty ones not judged)", out.lost, len(gaps), ambiguous)
			}
			for i, g := range gaps {
				if out.lostBefore[i] != g {
					return vh.Failf("loss-position", "DataLost #%d returned after %d bytes, gap is at %d", i, out.lostBefore[i], g)
				}
			}
		} else if out.lost != 0 {
			return vh.Failf("loss-unrequested", "DataLost returned although LossErrors is off")
		}
	} else if c.LossErrors {
		// up to the close: every reported loss sits at a gap position, in order, none twice
		gi := 0
		for _, lb := range out.lostBefore {
			for gi < len(gaps) && gaps[gi] < lb {
				gi++
			}
			if gi >= len(gaps) || gaps[gi] != lb {
				return vh.Failf("loss-position", "DataLost returned after %d bytes where no gap is", lb)
			}
			gi++
		}
	}
	return nil
}

func genCase(t *rapid.T) *Case {
	c := &Case{LossErrors: rapid.Bool().Draw(t, "loss"), Drain: rapid.IntRange(0, 3).Draw(t, "drain") > 0}
	c.DrainBuf = rapid.SampledFrom([]int{1, 2, 7, 512, 4096}).Draw(t, "drainbuf")
	nb := rapid.IntRange(0, 6).Draw(t, "nbatches")
	for i := 0; i < nb; i++ {
		ne := rapid.IntRange(0, 4).Draw(t, "nelems")
		b := []Elem{}
		for j := 0; j < ne; j++ {
			e := Elem{}
			switch rapid.IntRange(0, 5).Draw(t, "lenkind") {
			case 0:
				e.Len = 0
			case 1:
				e.Len = rapid.IntRange(1, 3000).Draw(t, "len")
			default:
				e.Len = rapid.IntRange(1, 40).Draw(t, "len")
			}
			if rapid.IntRange(0, 3).Draw(t, "hasskip") == 0 {
				e.Skip = rapid.SampledFrom([]int{-1, 1, 100}).Draw(t, "skip")
			}
			b = append(b, e)
		}
		c.Batches = append(c.Batches, b)
	}
	na := rapid.IntRange(0, 14).Draw(t, "nacts")
	for i := 0; i < na; i++ {
		if rapid.IntRange(0, 7).Draw(t, "isclose") == 0 {
			c.Acts = append(c.Acts, Act{K: "close"})
		} else {
			c.Acts = append(c.Acts, Act{K: "read", N: rapid.SampledFrom([]int{0, 1, 2, 7, 512, 4096, 5000}).Draw(t, "n")})
		}
	}
	return c
}

func classify(c *Case) (bool, []string) {
	var cls []string
	nonEmptyBatches, maxElem := 0, 0
	for _, b := range c.Batches {
		if len(b) > 0 {
			nonEmptyBatches++
		} else {
			cls = append(cls, "empty-batch")
		}
		for _, e := range b {
			maxElem = max(maxElem, e.Len)
			if e.Len == 0 {
				cls = append(cls, "empty-slice")
			}
			if e.Skip != 0 {
				cls = append(cls, "skip")
			}
		}
	}
	partial, closeMid := false, false
	reads := 0
	for i, a := range c.Acts {
		if a.K == "read" {
			reads++
			if a.N > 0 && a.N < maxElem {
				partial = true
			}
		} else if i > 0 && reads > 0 {
			closeMid = true
			cls = append(cls, "close-after-read")
		} else {
			cls = append(cls, "close-first")
		}
	}
	nt := nonEmptyBatches >= 2 && partial || closeMid
	if partial {
		cls = append(cls, "partial-read")
	}
	seen := map[string]bool{}
	var out []string
	for _, k := range cls {
		if !seen[k] {
			seen[k] = true
			out = append(out, k)
		}
	}
	return nt, out
}

func TestScripts(t *testing.T) {
	rapid.Check(t, func(rt *rapid.T) {
		c := genCase(rt)
		nt, cls := classify(c)
		js, _ := json.Marshal(c)
		S.Note(vh.Hash64(js), nt, cls...)
		if nt && len(js) < 1200 && S.WantSample() {
			S.Sample(c)
		}
		S.Check(rt, "TestScripts", c, runCase(t, c))
	})
}

// TestExhaustive: all delivery scripts of <=2 batches (3 thorough) of <=2 slices of length <=2, with and without a skip
// on the first slice, x all consumer scripts of <=3 (4 thorough) actions from {read 1, read 2, read 4, close} x drain/close at the end.
func TestExhaustive(t *testing.T) {
	maxB, maxA := 2, 3
	if vh.Thorough() {
		maxB, maxA = 3, 4
	}
	var batchKinds [][]Elem
	for _, n := range []int{0, 1, 2} {
		if n == 0 {
			batchKinds = append(batchKinds, []Elem{})
			continue
		}
		var rec func(cur []Elem)
		rec = func(cur []Elem) {
			if len(cur) == n {
				batchKinds = append(batchKinds, append([]Elem(nil), cur...))
				return
			}
			for l := 0; l <= 2; l++ {
				rec(append(cur, Elem{Len: l}))
			}
		}
		rec(nil)
	}
	batchKinds = append(batchKinds, []Elem{{Len: 2, Skip: 5}}, []Elem{{Len: 0, Skip: -1}, {Len: 1}})
	acts := []Act{{K: "read", N: 1}, {K: "read", N: 2}, {K: "read", N: 4}, {K: "close"}}
	var scripts [][][]Elem
	var recB func(cur [][]Elem)
	recB = func(cur [][]Elem) {
		scripts = append(scripts, append([][]Elem(nil), cur...))
		if len(cur) == maxB {
			return
		}
		for _, k := range batchKinds {
			recB(append(cur, k))
		}
	}
	recB(nil)
	var consumers [][]Act
	var recA func(cur []Act)
	recA = func(cur []Act) {
		consumers = append(consumers, append([]Act(nil), cur...))
		if len(cur) == maxA {
			return
		}
		for _, a := range acts {
			recA(append(cur, a))
		}
	}
	recA(nil)
	sh, nsh := vh.Shard()
	total := int64(0)
	for i, bs := range scripts {
		if i%nsh != sh {
			continue
		}
		for _, as := range consumers {
			for _, drain := range []bool{true, false} {
				c := &Case{Batches: bs, Acts: as, Drain: drain, DrainBuf: 1, LossErrors: true}
				total++
				nt, cls := classify(c)
				S.Note(vh.Hash64(fmt.Sprint(bs, as, drain)), nt, append(cls, "exhaustive")...)
				S.Check(t, "TestScripts", c, runCase(t, c))
				if t.Failed() {
					return
				}
			}
		}
	}
	S.Extra("exhaustive_scripts_total", total)
}

// ---- integration: a real tcpassembly.Assembler drives ReaderStreams through a factory ----

type IntCase struct {
	T      *tcpm.Case `json:"t"`
	Buf    int        `json:"buf"`
	CloseAt int       `json:"close_at"` // consumer closes after this many bytes (-1: read to EOF)
}

type factory struct {
	mk func(net, tr gopacket.Flow) tcpassembly.Stream
}

func (f *factory) New(n, tr gopacket.Flow) tcpassembly.Stream { return f.mk(n, tr) }

func runInt(t *testing.T, c *IntCase) *vh.Failure {
	type res struct {
		key  string
		got  []byte
		eof  bool
	}
	var results []*res
	var panicked any
	func() {
		defer func() {
			if r := recover(); r != nil {
				panicked = r
			}
		}()
		synctest.Test(t, func(t *testing.T) {
			done := make(chan struct{}, 64)
			n := 0
			f := &factory{}
			f.mk = func(nf, tf gopacket.Flow) tcpassembly.Stream {
				rs := tcpreader.NewReaderStream()
				r := &res{key: nf.String() + tf.String()}
				results = append(results, r)
				n++
				go func() {
					defer func() { done <- struct{}{} }()
					buf := make([]byte, max(c.Buf, 1))
					for {
						k, err := rs.Read(buf)
						r.got = append(r.got, buf[:k]...)
						if err == io.EOF {
							r.eof = true
							return
						}
						if c.CloseAt >= 0 && len(r.got) >= c.CloseAt {
							rs.Close()
							return
						}
					}
				}()
				return &rs
			}
			pool := tcpassembly.NewStreamPool(f)
			a := tcpassembly.NewAssembler(pool)
			for i := range c.T.Ops {
				op := &c.T.Ops[i]
				switch op.K {
				case "seg":
					s := op.Seg
					cp, sp := tcpm.Ports(s.Conn, s.Inc)
					tc := &layers.TCP{Seq: c.T.Seq(s), SYN: s.SYN, FIN: s.FIN, RST: s.RST, SrcPort: layers.TCPPort(cp), DstPort: layers.TCPPort(sp)}
					src, dst := []byte{10, 0, 0, 1}, []byte{10, 0, 0, 2}
					if s.Dir == 1 {
						tc.SrcPort, tc.DstPort = tc.DstPort, tc.SrcPort
						src, dst = dst, src
					}
					tc.SetInternalPortsForTesting()
					tc.Payload = c.T.Payload(s)
					a.Assemble(gopacket.NewFlow(layers.EndpointIPv4, src, dst), tc)
				case "flushAll":
					a.FlushAll()
				}
			}
			a.FlushAll()
			for i := 0; i < n; i++ {
				<-done
			}
		})
	}()
	if panicked != nil {
		msg := fmt.Sprint(panicked)
		if strings.Contains(msg, "deadlock") {
			return vh.Failf("integration:deadlock", "assembler and readers blocked forever: %s", msg)
		}
		return vh.Failf("integration:panic", "%s", msg)
	}
	// in-order, gap-free workloads: each first stream of a direction must read exactly the sender's bytes
	if c.CloseAt < 0 && len(results) > 0 {
		r := results[0]
		s0 := c.T.Ops[0].Seg
		want := tcpm.Content(&c.T.Conns[s0.Conn], s0.Dir, s0.Inc, 0, c.T.Conns[s0.Conn].Len[s0.Dir])
		if !r.eof || !bytes.Equal(r.got, want) {
			return vh.Failf("integration:bytes", "reader of the first stream got %d bytes (eof=%v), sender sent %d", len(r.got), r.eof, len(want))
		}
	}
	return nil
}

func TestIntegration(t *testing.T) {
	rapid.Check(t, func(rt *rapid.T) {
		// one connection, one direction, complete in-order-able stream (every byte arrives), no limits
		L := rapid.IntRange(1, 6000).Draw(rt, "len")
		tc := &tcpm.Case{Conns: []tcpm.ConnSpec{{Len: [2]int{L, 0}, Salt: 9, ISN: [2]uint32{rapid.Uint32().Draw(rt, "isn"), 0}}}}
		tc.Ops = append(tc.Ops, tcpm.Op{K: "seg", Seg: &tcpm.Seg{SYN: true}})
		var segs []tcpm.Seg
		for off := 0; off < L; {
			l := min(L-off, rapid.IntRange(1, 2500).Draw(rt, "seglen"))
			segs = append(segs, tcpm.Seg{Off: off, Len: l})
			off += l
		}
		perm := rapid.Permutation(segs).Draw(rt, "perm")
		for i := range perm {
			tc.Ops = append(tc.Ops, tcpm.Op{K: "seg", Seg: &perm[i]})
		}
		tc.Ops = append(tc.Ops, tcpm.Op{K: "seg", Seg: &tcpm.Seg{FIN: true, Off: L}})
		c := &IntCase{T: tc, Buf: rapid.SampledFrom([]int{1, 7, 512, 4096}).Draw(rt, "buf"), CloseAt: -1}
		if rapid.IntRange(0, 2).Draw(rt, "closes") == 0 {
			c.CloseAt = rapid.IntRange(0, L).Draw(rt, "closeat")
		}
		js, _ := json.Marshal(c)
		S.Note(vh.Hash64(js), len(segs) >= 2, "integration")
		S.Check(rt, "TestIntegration", c, runInt(t, c))
	})
}

func TestRegress(t *testing.T) {
	S.Regress(t, func(rf *vh.ReplayFile) (bool, *vh.Failure) {
		switch rf.Test {
		case "TestScripts":
			var c Case
			if err := json.Unmarshal(rf.Case, &c); err != nil {
				t.Fatal(err)
			}
			return true, runCase(t, &c)
		case "TestIntegration":
			var c IntCase
			if err := json.Unmarshal(rf.Case, &c); err != nil {
				t.Fatal(err)
			}
			return true, runInt(t, &c)
		}
		return false, nil
	})
}
