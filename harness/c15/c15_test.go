// Package c15 checks property C15: the capture-file readers (pcap, pcapng, snoop) are safe on arbitrary and
// hostile input, however the stream is chunked and wherever an I/O error strikes (DESIGN.md §5 C15).
package c15

import (
	"bytes"
	"compress/gzip"
	"encoding/binary"
	"encoding/json"
	"errors"
	"fmt"
	"io"
	"runtime/metrics"
	"strings"
	"testing"
	"time"

	"github.com/gopacket/gopacket"
	"github.com/gopacket/gopacket/layers"
	"github.com/gopacket/gopacket/pcapgo"
	"pgregory.net/rapid"

	"verifharness/internal/corpus"
	"verifharness/internal/vh"
)

var S = vh.New("C15")

func TestMain(m *testing.M) { vh.Main(m, S) }

type Case struct {
	Reader  string `json:"reader"` // pcap | ng | ng-mixed | ng-skip | snoop
	Data    []byte `json:"data"`
	Plain   int    `json:"plain_len"` // bytes the reader sees after gzip decompression (== len(Data) if not gzip)
	ZC      uint32 `json:"zc"`        // bit i: i-th call is the zero-copy variant
	Chunks  []int  `json:"chunks"`    // short-read pattern for the chunked run
	FaultAt int    `json:"fault_at"`  // inject a non-EOF error at this stream offset (-1: none)
	Source  string `json:"source"`
}

var errInjected = errors.New("injected I/O failure")

// chunkReader delivers data in short reads following a pattern, and optionally fails at an offset.
type chunkReader struct {
	data    []byte
	off     int
	pattern []int
	k       int
	faultAt int
}

func (c *chunkReader) Read(p []byte) (int, error) {
	if c.faultAt >= 0 && c.off >= c.faultAt {
		return 0, errInjected
	}
	if c.off >= len(c.data) {
		return 0, io.EOF
	}
	n := len(p)
	if len(c.pattern) > 0 {
		n = min(n, max(1, c.pattern[c.k%len(c.pattern)]))
		c.k++
	}
	n = min(n, len(c.data)-c.off)
	if c.faultAt >= 0 {
		n = min(n, c.faultAt-c.off)
		if n == 0 {
			return 0, errInjected
		}
	}
	copy(p, c.data[c.off:c.off+n])
	c.off += n
	return n, nil
}

type rec struct {
	data []byte
	ci   gopacket.CaptureInfo
}

type result struct {
	ctorErr  string
	pkts     []rec
	final    string
	rawFinal error
	declared uint64 // snap length the reader itself reports
}

func errClass(err error) string {
	switch {
	case err == nil:
		return "nil"
	case errors.Is(err, errInjected):
		return "injected"
	case errors.Is(err, io.EOF):
		return "EOF"
	case errors.Is(err, io.ErrUnexpectedEOF):
		return "UnexpectedEOF"
	}
	return "error"
}

var allocSample = []metrics.Sample{{Name: "/gc/heap/allocs:bytes"}}

func allocated() uint64 {
	metrics.Read(allocSample)
	return allocSample[0].Value.Uint64()
}

type source interface {
	read(zc bool) ([]byte, gopacket.CaptureInfo, error)
	snap() uint64
}

type pcapSrc struct{ r *pcapgo.Reader }

func (s pcapSrc) read(zc bool) ([]byte, gopacket.CaptureInfo, error) {
	if zc {
		return s.r.ZeroCopyReadPacketData()
	}
	return s.r.ReadPacketData()
}
func (s pcapSrc) snap() uint64 { return uint64(s.r.Snaplen()) }

type ngSrc struct{ r *pcapgo.NgReader }

func (s ngSrc) read(zc bool) ([]byte, gopacket.CaptureInfo, error) {
	if zc {
		d, ci, _, err := s.r.ZeroCopyReadPacketDataWithOptions()
		return d, ci, err
	}
	d, ci, _, err := s.r.ReadPacketDataWithOptions()
	return d, ci, err
}
func (s ngSrc) snap() uint64 {
	var m uint64
	for i := 0; i < s.r.NInterfaces(); i++ {
		if in, err := s.r.Interface(i); err == nil && uint64(in.SnapLength) > m {
			m = uint64(in.SnapLength)
		}
	}
	return m
}

type snoopSrc struct{ r *pcapgo.SnoopReader }

func (s snoopSrc) read(zc bool) ([]byte, gopacket.CaptureInfo, error) {
	if zc {
		return s.r.ZeroCopyReadPacketData()
	}
	return s.r.ReadPacketData()
}
func (s snoopSrc) snap() uint64 { return 4096 }

// consume runs one reader over a stream and applies the per-call oracles.
// consume runs the reader over a fresh stream. Allocation is measured with the runtime's cumulative heap counter,
// which other goroutines also feed and which the runtime updates lazily, so a single reading can overstate what one
// call allocated: an allocation finding only counts when it shows in three consecutive, otherwise identical passes.
func consume(c *Case, mk func() io.Reader, present int) (res result, f *vh.Failure) {
	for attempt := 0; attempt < 3; attempt++ {
		res, f = consumeOnce(c, mk(), present)
		if f == nil || !strings.Contains(f.Key, ":alloc") {
			return res, f
		}
		if attempt < 2 {
			S.Class("alloc-reading-rechecked", 1)
		}
	}
	return res, f
}

func consumeOnce(c *Case, rd io.Reader, present int) (res result, f *vh.Failure) {
	var src source
	a0 := allocated()
	var err error
	switch c.Reader {
	case "pcap":
		var r *pcapgo.Reader
		if r, err = pcapgo.NewReader(rd); err == nil {
			src = pcapSrc{r}
		}
	case "snoop":
		var r *pcapgo.SnoopReader
		if r, err = pcapgo.NewSnoopReader(rd); err == nil {
			src = snoopSrc{r}
		}
	default:
		o := pcapgo.NgReaderOptions{WantMixedLinkType: c.Reader == "ng-mixed", SkipUnknownVersion: c.Reader == "ng-skip", ErrorOnMismatchingLinkType: c.Reader == "ng-strict"}
		var r *pcapgo.NgReader
		if r, err = pcapgo.NewNgReader(rd, o); err == nil {
			src = ngSrc{r}
		}
	}
	// the bound is 'bytes present plus the declared snap length': what the reader reports once it exists, else the
	// largest snap length field found in the stream (either byte order)
	var lic uint64
	if src != nil {
		lic = src.snap()
	} else {
		lic = declaredSnap(c)
	}
	if d := allocated() - a0; d > 16*uint64(present)+lic+1<<20+1<<16 {
		return res, vh.Failf(c.Reader+":alloc:constructor", "constructor allocated %d KiB for a %d-byte stream (declared snap length %d)", d>>10, present, lic)
	}
	if err != nil {
		res.ctorErr = errClass(err)
		res.rawFinal = err
		return res, nil
	}
	limit := present/12 + 2
	for i := 0; ; i++ {
		zc := c.ZC>>(uint(i)%32)&1 == 1
		snapBefore := src.snap()
		if snapBefore > 64<<20 {
			// a forged snap length legitimately licenses allocations of that size ('bytes present plus the declared
			// snap length'); reading on would only burn gigabytes. Counted, not judged.
			S.Class("stopped-at-forged-snaplen", 1)
			res.final = "forged-snaplen"
			return res, nil
		}
		a := allocated()
		d, ci, err := src.read(zc)
		delta := allocated() - a
		declared := max(snapBefore, src.snap())
		res.declared = max(res.declared, declared)
		if bound := 16*(uint64(present)+declared) + 1<<20; delta > bound {
			return res, vh.Failf(c.Reader+":alloc", "read call %d allocated %d KiB; stream has %d bytes, declared snap length %d (bound %d KiB)", i, delta>>10, present, declared, bound>>10)
		}
		if err != nil {
			res.final = errClass(err)
			res.rawFinal = err
			return res, nil
		}
		if len(d) != ci.CaptureLength {
			return res, vh.Failf(c.Reader+":len-mismatch", "read call %d returned %d bytes but CaptureLength=%d", i, len(d), ci.CaptureLength)
		}
		if ci.CaptureLength > ci.Length {
			return res, vh.Failf(c.Reader+":caplen-exceeds-length", "read call %d: CaptureLength %d > Length %d", i, ci.CaptureLength, ci.Length)
		}
		res.pkts = append(res.pkts, rec{append([]byte(nil), d...), ci})
		if len(res.pkts) > limit {
			return res, vh.Failf(c.Reader+":hang", "reader returned %d packets from a %d-byte stream (more than one per 12 bytes): it does not consume its input", len(res.pkts), present)
		}
	}
}

func sameRuns(a, b result) string {
	if a.ctorErr != b.ctorErr {
		return fmt.Sprintf("constructor result %q vs %q", a.ctorErr, b.ctorErr)
	}
	if len(a.pkts) != len(b.pkts) {
		return fmt.Sprintf("%d packets (then %s) vs %d packets (then %s)", len(a.pkts), a.final, len(b.pkts), b.final)
	}
	for i := range a.pkts {
		if !bytes.Equal(a.pkts[i].data, b.pkts[i].data) || a.pkts[i].ci.CaptureLength != b.pkts[i].ci.CaptureLength || a.pkts[i].ci.Length != b.pkts[i].ci.Length || !a.pkts[i].ci.Timestamp.Equal(b.pkts[i].ci.Timestamp) || a.pkts[i].ci.InterfaceIndex != b.pkts[i].ci.InterfaceIndex {
			return fmt.Sprintf("packet %d differs", i)
		}
	}
	if a.final != b.final {
		return fmt.Sprintf("final error class %q vs %q", a.final, b.final)
	}
	return ""
}

type info struct {
	pkts     int
	progress bool
}

func runCase(c *Case) (f *vh.Failure, in info) {
	S.Guard("TestStreams", c.Reader, c, 30*time.Second, func() {
		pv, stack := vh.Recover(func() { f, in = runCase1(c) })
		if pv != nil {
			fn, where := vh.InnermostRepoFunc(stack)
			f = vh.Failf(c.Reader+":panic:"+fn, "%s reader panicked on a %d-byte stream (%s): %v at %s", c.Reader, len(c.Data), c.Source, pv, where)
		}
	})
	return
}

func runCase1(c *Case) (*vh.Failure, info) {
	var in info
	present := c.Plain
	if present <= 0 {
		present = len(c.Data)
	}
	if len(c.Data) > 2 && c.Data[0] == 0x1f && c.Data[1] == 0x8b {
		present = max(present, inflatedLen(c.Data)) // see genCase: damaged deflate data may inflate beyond the original
	}
	whole, f := consume(c, func() io.Reader { return bytes.NewReader(c.Data) }, present)
	if f != nil {
		return f, in
	}
	in.pkts = len(whole.pkts)
	in.progress = len(whole.pkts) > 0
	// chunking invariance
	chunked, f := consume(c, func() io.Reader { return &chunkReader{data: c.Data, pattern: c.Chunks, faultAt: -1} }, present)
	if f != nil {
		f.Msg = "chunked delivery: " + f.Msg
		return f, in
	}
	if d := sameRuns(whole, chunked); d != "" {
		return vh.Failf(c.Reader+":chunk-diff", "result depends on how the stream splits its data into reads (pattern %v): %s", c.Chunks, d), in
	}
	// injected I/O error
	if c.FaultAt >= 0 && c.FaultAt < len(c.Data) {
		faulty, f := consume(c, func() io.Reader { return &chunkReader{data: c.Data, pattern: c.Chunks, faultAt: c.FaultAt} }, present)
		if f != nil {
			f.Msg = fmt.Sprintf("with an I/O error injected at offset %d: %s", c.FaultAt, f.Msg)
			return f, in
		}
		if faulty.ctorErr == "" && faulty.final == "" {
			return vh.Failf(c.Reader+":error-swallowed", "I/O error at offset %d never surfaced", c.FaultAt), in
		}
		// packets before the fault are a prefix of the fault-free run and the run ends with an error
		if len(faulty.pkts) > len(whole.pkts) {
			return vh.Failf(c.Reader+":error-swallowed", "more packets (%d) with an injected error than without (%d)", len(faulty.pkts), len(whole.pkts)), in
		}
		for i := range faulty.pkts {
			if !bytes.Equal(faulty.pkts[i].data, whole.pkts[i].data) {
				return vh.Failf(c.Reader+":error-swallowed", "packet %d differs when an I/O error is injected later at offset %d", i, c.FaultAt), in
			}
		}
		end := faulty.final
		if faulty.ctorErr != "" {
			end = faulty.ctorErr
		}
		// the stream fails before its natural end: the reader must end with an error; if it consumed up to the
		// fault it must be the injected one (readers may legitimately stop earlier on a format error)
		if end == "EOF" && len(faulty.pkts) < len(whole.pkts) {
			return vh.Failf(c.Reader+":error-swallowed", "I/O error at offset %d was turned into a clean end of file after %d of %d packets", c.FaultAt, len(faulty.pkts), len(whole.pkts)), in
		}
	}
	return nil, in
}

// ---------------- generators ----------------

func gz(b []byte) []byte {
	var buf bytes.Buffer
	w := gzip.NewWriter(&buf)
	w.Write(b)
	w.Close()
	return buf.Bytes()
}

func validPcap(t *rapid.T) []byte {
	var buf bytes.Buffer
	var w *pcapgo.Writer
	if rapid.Bool().Draw(t, "nanos") {
		w = pcapgo.NewWriterNanos(&buf)
	} else {
		w = pcapgo.NewWriter(&buf)
	}
	w.WriteFileHeader(uint32(rapid.SampledFrom([]int{0, 64, 1500, 65535, 262144}).Draw(t, "snap")), layers.LinkTypeEthernet)
	n := rapid.IntRange(0, 6).Draw(t, "np")
	for i := 0; i < n; i++ {
		l := rapid.IntRange(0, 70).Draw(t, "len")
		d := bytes.Repeat([]byte{byte(i + 1)}, l)
		w.WritePacket(gopacket.CaptureInfo{Timestamp: time.Unix(int64(i), 5000), CaptureLength: l, Length: l + rapid.IntRange(0, 3).Draw(t, "extra")}, d)
	}
	return buf.Bytes()
}

func validNg(t *rapid.T) []byte {
	var buf bytes.Buffer
	intf := pcapgo.NgInterface{Name: "eth0", Comment: rapid.SampledFrom([]string{"", "c", "comment"}).Draw(t, "ifc"), LinkType: layers.LinkTypeEthernet, SnapLength: uint32(rapid.SampledFrom([]int{0, 64, 65535}).Draw(t, "snap")), Filter: "tcp"}
	w, err := pcapgo.NewNgWriterInterface(&buf, intf, pcapgo.NgWriterOptions{SectionInfo: pcapgo.NgSectionInfo{Application: "a", OS: "linux"}})
	if err != nil {
		return nil
	}
	n := rapid.IntRange(0, 6).Draw(t, "np")
	nif := 1
	for i := 0; i < n; i++ {
		switch rapid.IntRange(0, 7).Draw(t, "extra") {
		case 0:
			w.AddInterface(pcapgo.NgInterface{Name: "x", LinkType: layers.LinkType(rapid.SampledFrom([]int{1, 113}).Draw(t, "lt")), TimestampOffset: 3})
			nif++
		case 1:
			w.WriteInterfaceStats(0, pcapgo.NgInterfaceStatistics{PacketsReceived: 5, PacketsDropped: 1, StartTime: time.Unix(1, 0), EndTime: time.Unix(2, 0)})
		case 2:
			w.WriteDecryptionSecretsBlock(pcapgo.DSB_SECRETS_TYPE_TLS, []byte("CLIENT_RANDOM 00 11"))
		}
		l := rapid.IntRange(0, 70).Draw(t, "len")
		var o pcapgo.NgPacketOptions
		if rapid.Bool().Draw(t, "opts") {
			v := uint64(7)
			q := uint32(2)
			o = pcapgo.NgPacketOptions{Comments: []string{"hi", ""}, DropCount: &v, Queue: &q, Hashes: []pcapgo.NgEpbHash{{Algorithm: 2, Hash: []byte{1, 2, 3, 4}}}, Verdicts: []pcapgo.NgEpbVerdict{{Type: 1, Data: []byte{9}}}}
		}
		w.WritePacketWithOptions(gopacket.CaptureInfo{Timestamp: time.Unix(int64(i), 77), CaptureLength: l, Length: l, InterfaceIndex: rapid.IntRange(0, nif-1).Draw(t, "ifx")}, bytes.Repeat([]byte{byte(i + 1)}, l), o)
	}
	w.Flush()
	b := buf.Bytes()
	if rapid.IntRange(0, 4).Draw(t, "nrb") == 0 {
		// a hand-made name resolution block (the library has no writer for it): one IPv4 record with two names, end record
		rec := []byte{1, 0, 14, 0, 10, 0, 0, 1, 'h', 'o', 's', 't', 0, 'a', 'l', 'i', 'a', 's', 0, 0, 0, 0, 0, 0}
		blk := make([]byte, 0, 40)
		blk = binary.LittleEndian.AppendUint32(blk, 4)
		blk = binary.LittleEndian.AppendUint32(blk, uint32(12+len(rec)))
		blk = append(blk, rec...)
		blk = binary.LittleEndian.AppendUint32(blk, uint32(12+len(rec)))
		b = append(append([]byte(nil), b...), blk...)
	}
	return b
}

func validSnoop(t *rapid.T) []byte {
	b := []byte{'s', 'n', 'o', 'o', 'p', 0, 0, 0, 0, 0, 0, 2, 0, 0, 0, 4}
	n := rapid.IntRange(0, 5).Draw(t, "np")
	for i := 0; i < n; i++ {
		l := rapid.IntRange(0, 70).Draw(t, "len")
		pad := (4 - l%4) % 4
		h := make([]byte, 24)
		binary.BigEndian.PutUint32(h[0:], uint32(l))
		binary.BigEndian.PutUint32(h[4:], uint32(l))
		binary.BigEndian.PutUint32(h[8:], uint32(24+l+pad))
		binary.BigEndian.PutUint32(h[16:], uint32(i))
		b = append(b, h...)
		b = append(b, bytes.Repeat([]byte{byte(i + 1)}, l+pad)...)
	}
	return b
}

var hostileVals = []uint32{0, 1, 3, 7, 8, 0x7fff, 0xffff, 0x7fffffff, 0xffffffff, 0x80000000, 12, 16, 28}

// fields returns (offset,width) of the header fields of a capture file, found by the harness' own parsing.
func fields(b []byte, kind string) [][2]int {
	var out [][2]int
	switch kind {
	case "pcap":
		for _, f := range [][2]int{{0, 4}, {4, 2}, {6, 2}, {8, 4}, {12, 4}, {16, 4}, {20, 4}} {
			out = append(out, f)
		}
		if len(b) < 24 {
			var ok [][2]int
			for _, f := range out {
				if f[0]+f[1] <= len(b) {
					ok = append(ok, f)
				}
			}
			return ok
		}
		var bo binary.ByteOrder = binary.LittleEndian
		if m := binary.LittleEndian.Uint32(b); m == 0xD4C3B2A1 || m == 0x4D3CB2A1 {
			bo = binary.BigEndian
		}
		for off := 24; off+16 <= len(b); {
			out = append(out, [2]int{off, 4}, [2]int{off + 4, 4}, [2]int{off + 8, 4}, [2]int{off + 12, 4})
			off += 16 + int(bo.Uint32(b[off+8:]))
			if off < 0 {
				break
			}
		}
	case "snoop":
		out = append(out, [2]int{0, 4}, [2]int{4, 4}, [2]int{8, 4}, [2]int{12, 4})
		for off := 16; off+24 <= len(b); {
			for k := 0; k < 24; k += 4 {
				out = append(out, [2]int{off + k, 4})
			}
			l := int(binary.BigEndian.Uint32(b[off+8:]))
			if l < 24 {
				break
			}
			off += l
		}
	default:
		var bo binary.ByteOrder = binary.LittleEndian
		for off := 0; off+12 <= len(b); {
			typ := bo.Uint32(b[off:])
			if typ == 0x0A0D0D0A {
				if binary.BigEndian.Uint32(b[off+8:]) == 0x1A2B3C4D {
					bo = binary.BigEndian
				} else {
					bo = binary.LittleEndian
				}
			}
			l := int(bo.Uint32(b[off+4:]))
			if l < 12 || l%4 != 0 || off+l > len(b) {
				break
			}
			out = append(out, [2]int{off, 4}, [2]int{off + 4, 4}, [2]int{off + l - 4, 4})
			optOff := -1
			switch typ {
			case 0x0A0D0D0A:
				out = append(out, [2]int{off + 8, 4}, [2]int{off + 12, 2}, [2]int{off + 14, 2}, [2]int{off + 16, 4}, [2]int{off + 20, 4})
				optOff = 24
			case 1:
				out = append(out, [2]int{off + 8, 2}, [2]int{off + 10, 2}, [2]int{off + 12, 4})
				optOff = 16
			case 5:
				out = append(out, [2]int{off + 8, 4}, [2]int{off + 12, 4}, [2]int{off + 16, 4})
				optOff = 20
			case 6:
				for k := 8; k < 28; k += 4 {
					out = append(out, [2]int{off + k, 4})
				}
				if off+28 <= len(b) {
					optOff = 28 + (int(bo.Uint32(b[off+20:]))+3)/4*4
				}
			case 3:
				out = append(out, [2]int{off + 8, 4})
			case 10:
				out = append(out, [2]int{off + 8, 4}, [2]int{off + 12, 4})
			case 4:
				out = append(out, [2]int{off + 8, 2}, [2]int{off + 10, 2})
			}
			for o := off + optOff; optOff > 0 && o+4 <= off+l-4; {
				out = append(out, [2]int{o, 2}, [2]int{o + 2, 2})
				ol := int(bo.Uint16(b[o+2:]))
				if ol > 0 {
					out = append(out, [2]int{o + 4, 1})
				}
				o += 4 + (ol+3)/4*4
			}
			off += l
		}
	}
	var ok [][2]int
	for _, f := range out {
		if f[0] >= 0 && f[0]+f[1] <= len(b) {
			ok = append(ok, f)
		}
	}
	return ok
}

// snapField tells whether the 4-byte field at off declares a snap length (pcap file header, pcapng interface
// description). A forged snap length legitimately licenses allocations of that size (the property's bound is
// 'bytes present plus declared snap length'), so huge values there only burn gigabytes without testing anything.
func snapField(b []byte, kind string, off int) bool {
	if kind == "pcap" {
		return off == 16
	}
	if kind == "ng" && off >= 12 && off+4 <= len(b) {
		t1 := binary.LittleEndian.Uint32(b[off-12:])
		t2 := binary.BigEndian.Uint32(b[off-12:])
		return t1 == 1 || t2 == 1
	}
	return false
}

func setField(b []byte, f [2]int, v uint32, be bool) {
	switch f[1] {
	case 1:
		b[f[0]] = byte(v)
	case 2:
		if be {
			binary.BigEndian.PutUint16(b[f[0]:], uint16(v))
		} else {
			binary.LittleEndian.PutUint16(b[f[0]:], uint16(v))
		}
	default:
		if be {
			binary.BigEndian.PutUint32(b[f[0]:], v)
		} else {
			binary.LittleEndian.PutUint32(b[f[0]:], v)
		}
	}
}

func kindOf(reader string) string {
	switch reader {
	case "pcap", "snoop":
		return reader
	}
	return "ng"
}

// declaredSnap returns the largest snap length a stream declares (pcap file header, pcapng interface descriptions),
// read in both byte orders; only used when the constructor failed and cannot be asked.
func declaredSnap(c *Case) uint64 {
	b := c.Data
	if len(b) > 2 && b[0] == 0x1f && b[1] == 0x8b {
		if zr, err := gzip.NewReader(bytes.NewReader(b)); err == nil {
			b, _ = io.ReadAll(io.LimitReader(zr, 1<<20))
		}
	}
	kind := kindOf(c.Reader)
	var m uint64
	for _, f := range fields(b, kind) {
		if f[1] == 4 && snapField(b, kind, f[0]) {
			m = max(m, uint64(binary.LittleEndian.Uint32(b[f[0]:])), uint64(binary.BigEndian.Uint32(b[f[0]:])))
		}
	}
	return min(m, 64<<20)
}

// inflatedLen counts the bytes a gzip reader yields from b before it ends or fails.
func inflatedLen(b []byte) int {
	zr, err := gzip.NewReader(bytes.NewReader(b))
	if err != nil {
		return 0
	}
	n, _ := io.Copy(io.Discard, zr)
	return int(n)
}

func genCase(t *rapid.T) *Case {
	c := &Case{Reader: rapid.SampledFrom([]string{"pcap", "pcap", "ng", "ng", "ng-mixed", "ng-skip", "ng-strict", "snoop"}).Draw(t, "reader"), FaultAt: -1}
	kind := kindOf(c.Reader)
	var base []byte
	switch rapid.IntRange(0, 5).Draw(t, "src") {
	case 0: // repository file of the right kind
		names, data := corpus.Files()
		var cand []string
		for _, n := range names {
			isNg := bytes.HasSuffix([]byte(n), []byte(".pcapng"))
			if (kind == "ng") == isNg && len(data[n]) < 200000 && kind != "snoop" {
				cand = append(cand, n)
			}
		}
		if len(cand) > 0 {
			n := rapid.SampledFrom(cand).Draw(t, "file")
			base = data[n]
			c.Source = "repo:" + n
			if len(base) > 6000 {
				base = base[:rapid.IntRange(200, 6000).Draw(t, "prefix")]
			}
		}
	case 1: // raw hostile bytes behind a magic
		magic := map[string][][]byte{"pcap": {{0xd4, 0xc3, 0xb2, 0xa1, 2, 0, 4, 0}, {0xa1, 0xb2, 0xc3, 0xd4, 0, 2, 0, 4}, {0x4d, 0x3c, 0xb2, 0xa1, 2, 0, 4, 0}},
			"ng": {{0x0a, 0x0d, 0x0d, 0x0a}}, "snoop": {{'s', 'n', 'o', 'o', 'p', 0, 0, 0, 0, 0, 0, 2}}}[kind]
		base = append(append([]byte(nil), rapid.SampledFrom(magic).Draw(t, "magic")...), rapid.SliceOfN(rapid.Byte(), 0, 120).Draw(t, "tail")...)
		c.Source = "magic+random"
	}
	if base == nil {
		switch kind {
		case "pcap":
			base = validPcap(t)
		case "snoop":
			base = validSnoop(t)
		default:
			base = validNg(t)
		}
		c.Source = "generated"
	}
	b := append([]byte(nil), base...)
	// structure-aware corruption: 0..3 header fields set to hostile values
	if fs := fields(b, kind); len(fs) > 0 {
		k := rapid.IntRange(0, 3).Draw(t, "ncorrupt")
		for i := 0; i < k; i++ {
			f := fs[rapid.IntRange(0, len(fs)-1).Draw(t, "field")]
			v := rapid.SampledFrom(hostileVals).Draw(t, "value")
			if rapid.IntRange(0, 3).Draw(t, "rel") == 0 {
				v = uint32(len(b)-f[0]) + uint32(rapid.IntRange(-9, 9).Draw(t, "delta"))
			}
			if snapField(b, kind, f[0]) && v > 1<<20 {
				v = 1 << 20
			}
			setField(b, f, v, kind == "snoop" || rapid.IntRange(0, 9).Draw(t, "be") == 0)
			c.Source += fmt.Sprintf("+field@%d", f[0])
		}
	}
	switch rapid.IntRange(0, 9).Draw(t, "post") {
	case 0:
		b = b[:rapid.IntRange(0, len(b)).Draw(t, "cut")]
		c.Source += "+cut"
	case 1:
		if len(b) > 0 {
			b[rapid.IntRange(0, len(b)-1).Draw(t, "flipat")] ^= 1 << rapid.IntRange(0, 7).Draw(t, "bit")
			c.Source += "+bitflip"
		}
	}
	c.Plain = len(b)
	if kind != "snoop" {
		switch rapid.IntRange(0, 9).Draw(t, "gzip") {
		case 0:
			b = gz(b)
			c.Source += "+gzip"
		case 1: // corrupt gzip framing / truncated gzip stream
			g := gz(b)
			if len(g) > 12 {
				if rapid.Bool().Draw(t, "gzcut") {
					g = g[:rapid.IntRange(2, len(g)-1).Draw(t, "gzcutat")]
				} else {
					g[rapid.IntRange(2, len(g)-1).Draw(t, "gzflip")] ^= 0x40
				}
			}
			b = g
			c.Source += "+gzip-corrupt"
			// a damaged deflate stream can inflate to more bytes than the original before the damage is noticed:
			// what bounds the reader's output is what actually comes out of the decompressor
			c.Plain = max(c.Plain, inflatedLen(b))
		}
	}
	c.Data = b
	c.ZC = rapid.Uint32().Draw(t, "zc")
	c.Chunks = rapid.SliceOfN(rapid.IntRange(1, 9), 1, 6).Draw(t, "chunks")
	if rapid.IntRange(0, 2).Draw(t, "fault") == 0 && len(b) > 0 {
		c.FaultAt = rapid.IntRange(0, len(b)-1).Draw(t, "faultat")
	}
	return c
}

func TestStreams(t *testing.T) {
	rapid.Check(t, func(rt *rapid.T) {
		c := genCase(rt)
		S.Current("TestStreams", c)
		f, in := runCase(c)
		cls := []string{"reader:" + c.Reader}
		if c.FaultAt >= 0 {
			cls = append(cls, "io-fault")
		}
		if bytes.Contains([]byte(c.Source), []byte("gzip")) {
			cls = append(cls, "gzip")
		}
		nt := in.progress || bytes.Contains([]byte(c.Source), []byte("field@"))
		S.Note(vh.Hash64(c.Reader, c.Data, c.ZC, fmt.Sprint(c.Chunks), c.FaultAt), nt, cls...)
		if nt && len(c.Data) < 300 && S.WantSample() {
			S.Sample(c)
		}
		S.Check(rt, "TestStreams", c, f)
	})
}

// TestFieldSweep: every header field of every block of generated files and of the repository's capture files,
// set in turn to each hostile value (structure-aware exhaustive corruption).
func TestFieldSweep(t *testing.T) {
	type fileT struct {
		kind, name string
		data       []byte
	}
	var files []fileT
	names, data := corpus.Files()
	maxFiles, maxLen := 6, 1500
	if vh.Thorough() {
		maxFiles, maxLen = 50, 6000
	}
	for _, n := range names {
		if len(files) >= maxFiles {
			break
		}
		d := data[n]
		if len(d) > maxLen {
			d = d[:maxLen]
		}
		k := "pcap"
		if bytes.HasSuffix([]byte(n), []byte(".pcapng")) {
			k = "ng"
		}
		files = append(files, fileT{k, n, d})
	}
	sh, nsh := vh.Shard()
	total := 0
	for fi, fl := range files {
		if fi%nsh != sh {
			continue
		}
		fs := fields(fl.data, fl.kind)
		for _, f := range fs {
			for _, v := range hostileVals {
				for _, be := range []bool{false, true} {
					if snapField(fl.data, fl.kind, f[0]) && (v > 1<<20 || be && v > 0xff) {
						S.Class("forged-snaplen-skipped", 1)
						continue
					}
					b := append([]byte(nil), fl.data...)
					setField(b, f, v, be)
					readers := []string{"pcap"}
					if fl.kind == "ng" {
						readers = []string{"ng", "ng-mixed"}
					}
					for _, rd := range readers {
						c := &Case{Reader: rd, Data: b, Plain: len(b), ZC: 0xAAAAAAAA, Chunks: []int{1, 7, 3}, FaultAt: -1, Source: fmt.Sprintf("sweep:%s field@%d=%#x", fl.name, f[0], v)}
						fail, in := runCase(c)
						total++
						S.Note(vh.Hash64(rd, fl.name, f[0], v, be), true, "field-sweep", "reader:"+rd)
						_ = in
						S.Check(t, "TestStreams", c, fail)
						if t.Failed() {
							return
						}
					}
				}
			}
		}
	}
	S.Extra("field_sweep_cases_total", total)
}

func TestRegress(t *testing.T) {
	S.Regress(t, func(rf *vh.ReplayFile) (bool, *vh.Failure) {
		var c Case
		if err := json.Unmarshal(rf.Case, &c); err != nil {
			t.Fatal(err)
		}
		f, _ := runCase(&c)
		return true, f
	})
}
