package c15

import (
	"testing"

	"verifharness/internal/corpus"
)

var fuzzReaders = []string{"pcap", "ng", "ng-mixed", "ng-skip", "ng-strict", "snoop"}

// FuzzReaders is the coverage-guided entry (thorough tier): a selector byte picks the reader, the rest is the
// stream. The oracle is the same runCase as in TestStreams (no panic, bounded allocation, no hang, chunking invariance).
func FuzzReaders(f *testing.F) {
	names, data := corpus.Files()
	for i, n := range names {
		if d := data[n]; len(d) > 0 && len(d) <= 4000 {
			f.Add(byte(i), uint32(i*2654435761), d)
		}
	}
	f.Add(byte(0), uint32(0), []byte{0xd4, 0xc3, 0xb2, 0xa1, 2, 0, 4, 0, 0, 0, 0, 0, 0, 0, 0, 0, 0xff, 0xff, 0, 0, 1, 0, 0, 0})
	f.Add(byte(5), uint32(1), []byte{'s', 'n', 'o', 'o', 'p', 0, 0, 0, 0, 0, 0, 2, 0, 0, 0, 4})
	f.Fuzz(func(t *testing.T, sel byte, zc uint32, d []byte) {
		if len(d) > 1<<16 {
			return
		}
		c := &Case{Reader: fuzzReaders[int(sel)%len(fuzzReaders)], Data: d, Plain: len(d), ZC: zc, FaultAt: -1, Source: "native-fuzz"}
		if declaredSnap(c) > 4<<20 {
			return // a forged snap length licenses allocations of that size; tens of megabytes per read only starve the fuzz workers
		}
		fl, _ := runCase(c)
		S.Check(t, "TestStreams", c, fl)
	})
}
