// Package c05 checks property C05: preallocated-layer decoding (DecodingLayerParser) equals packet decoding on
// the leading run of layers and keeps no stale state between packets (DESIGN.md §5 C05).
package c05

import (
	"encoding/json"
	"fmt"
	"sort"
	"strings"
	"testing"
	"time"

	"github.com/gopacket/gopacket"
	"github.com/gopacket/gopacket/layers"
	"pgregory.net/rapid"

	"verifharness/internal/corpus"
	"verifharness/internal/gen"
	"verifharness/internal/sig"
	"verifharness/internal/vh"
)

var S = vh.New("C05")

func TestMain(m *testing.M) { vh.Main(m, S) }

var layerNames = []string{"Ethernet", "Dot1Q", "IPv4", "IPv6", "TCP", "UDP", "ICMPv4", "ICMPv6", "DNS", "Payload"}

func newLayer(name string) gopacket.DecodingLayer {
	switch name {
	case "Ethernet":
		return &layers.Ethernet{}
	case "Dot1Q":
		return &layers.Dot1Q{}
	case "IPv4":
		return &layers.IPv4{}
	case "IPv6":
		return &layers.IPv6{}
	case "TCP":
		return &layers.TCP{}
	case "UDP":
		return &layers.UDP{}
	case "ICMPv4":
		return &layers.ICMPv4{}
	case "ICMPv6":
		return &layers.ICMPv6{}
	case "DNS":
		return &layers.DNS{}
	case "Payload":
		var p gopacket.Payload
		return &p
	case "IPv6ExtensionSkipper": // the library's own multi-type decoding layer (all four IPv6 extension types)
		return &layers.IPv6ExtensionSkipper{}
	case "IPAny": // a user-defined multi-type decoding layer: IPv4 and IPv6 behind one object
		return &ipAny{}
	}
	return nil
}

type ipAny struct {
	v4  layers.IPv4
	v6  layers.IPv6
	is6 bool
}

var ipAnyClass = gopacket.NewLayerClass([]gopacket.LayerType{layers.LayerTypeIPv4, layers.LayerTypeIPv6})

func (a *ipAny) DecodeFromBytes(d []byte, df gopacket.DecodeFeedback) error {
	a.is6 = len(d) > 0 && d[0]>>4 == 6
	if a.is6 {
		return a.v6.DecodeFromBytes(d, df)
	}
	return a.v4.DecodeFromBytes(d, df)
}
func (a *ipAny) CanDecode() gopacket.LayerClass { return ipAnyClass }
func (a *ipAny) NextLayerType() gopacket.LayerType {
	if a.is6 {
		return a.v6.NextLayerType()
	}
	return a.v4.NextLayerType()
}
func (a *ipAny) LayerPayload() []byte {
	if a.is6 {
		return a.v6.LayerPayload()
	}
	return a.v4.LayerPayload()
}

// custom container: a plain slice with linear search, using the generic LayersDecoder path
type sliceContainer []gopacket.DecodingLayer

func (c sliceContainer) Put(d gopacket.DecodingLayer) gopacket.DecodingLayerContainer {
	return append(c, d)
}
func (c sliceContainer) Decoder(t gopacket.LayerType) (gopacket.DecodingLayer, bool) {
	for i := len(c) - 1; i >= 0; i-- {
		if c[i].CanDecode().Contains(t) {
			return c[i], true
		}
	}
	return nil, false
}
func (c sliceContainer) LayersDecoder(first gopacket.LayerType, df gopacket.DecodeFeedback) gopacket.DecodingLayerFunc {
	return gopacket.LayersDecoder(c, first, df)
}

func container(kind string) gopacket.DecodingLayerContainer {
	switch kind {
	case "map":
		return gopacket.DecodingLayerMap(nil)
	case "sparse":
		return gopacket.DecodingLayerSparse(nil)
	case "array":
		return gopacket.DecodingLayerArray(nil)
	}
	return sliceContainer(nil)
}

var kinds = []string{"map", "sparse", "array", "custom"}

type Case struct {
	Packets   [][]byte `json:"packets"`
	Set       []string `json:"set"`
	Kind      string   `json:"kind"`
	First     string   `json:"first"` // Ethernet | IPv4 | IPv6
	IgnoreUns bool     `json:"ignore_unsupported"`
	// ContainersOnly: Set is an arbitrary Put order that may repeat types and contain multi-type decoding layers
	// (IPv6ExtensionSkipper, IPAny); only the fresh-vs-reused and the container-agreement oracles apply (a skipper
	// hides layers from the run by design, so the run is not comparable with packet decoding)
	ContainersOnly bool `json:"containers_only,omitempty"`
}

type parserRun struct {
	decoded   []gopacket.LayerType
	err       error
	truncated bool
	sigs      map[gopacket.LayerType]string
	panicked  bool
}

type harnessParser struct {
	p         *gopacket.DecodingLayerParser
	p2first   gopacket.LayerType
	lastAsked gopacket.DecodingLayer // the layer object whose DecodeFromBytes was called last
	decoded   []gopacket.LayerType   // reused across calls, as users of the allocation-free path do
	objs      map[gopacket.LayerType]gopacket.DecodingLayer
}

func firstType(name string) gopacket.LayerType {
	switch name {
	case "IPv4":
		return layers.LayerTypeIPv4
	case "IPv6":
		return layers.LayerTypeIPv6
	}
	return layers.LayerTypeEthernet
}

// recorder forwards to the real layer object and notes which object was asked to decode last.
type recorder struct {
	gopacket.DecodingLayer
	hp *harnessParser
}

func (r *recorder) DecodeFromBytes(data []byte, df gopacket.DecodeFeedback) error {
	r.hp.lastAsked = r.DecodingLayer
	return r.DecodingLayer.DecodeFromBytes(data, df)
}

func newParser(c *Case, kind string) *harnessParser {
	hp := &harnessParser{objs: map[gopacket.LayerType]gopacket.DecodingLayer{}}
	hp.p = gopacket.NewDecodingLayerParser(firstType(c.First))
	hp.p2first = firstType(c.First)
	dlc := container(kind)
	for _, n := range c.Set {
		l := newLayer(n)
		dlc = dlc.Put(&recorder{DecodingLayer: l, hp: hp})
		for _, t := range l.CanDecode().LayerTypes() {
			hp.objs[t] = l
		}
	}
	hp.p.SetDecodingLayerContainer(dlc)
	hp.p.IgnoreUnsupported = c.IgnoreUns
	return hp
}

func (hp *harnessParser) run(data []byte) parserRun {
	var r parserRun
	pv, _ := vh.Recover(func() { r.err = hp.p.DecodeLayers(data, &hp.decoded) })
	decoded := hp.decoded
	r.panicked = pv != nil
	r.decoded = append([]gopacket.LayerType(nil), decoded...)
	r.truncated = hp.p.Truncated
	r.sigs = map[gopacket.LayerType]string{}
	last := map[gopacket.LayerType]bool{}
	for _, t := range decoded {
		last[t] = true
	}
	if errClass(r.err) == "decode-error" {
		// the object that failed to decode holds a half-written state that is not part of the reported result; with
		// stacked layers of one type (IP in IP, double VLAN) that same object was reported earlier in the run and
		// can no longer be inspected
		for t := range last {
			if hp.objs[t] == hp.lastAsked {
				delete(last, t)
			}
		}
	}
	for t := range last {
		if o, ok := hp.objs[t].(gopacket.Layer); ok {
			vh.Recover(func() { r.sigs[t] = sig.Layer(o) })
		}
	}
	return r
}

func errClass(err error) string {
	if err == nil {
		return "nil"
	}
	if u, ok := err.(gopacket.UnsupportedLayerType); ok {
		return "unsupported:" + gopacket.LayerType(u).String()
	}
	return "decode-error"
}

func same(a, b parserRun) (string, string) {
	if fmt.Sprint(a.decoded) != fmt.Sprint(b.decoded) {
		return "decoded-list", fmt.Sprintf("%v vs %v", a.decoded, b.decoded)
	}
	if errClass(a.err) != errClass(b.err) {
		return "error-class", fmt.Sprintf("%v vs %v", a.err, b.err)
	}
	if a.truncated != b.truncated {
		return "truncated", fmt.Sprintf("%v vs %v", a.truncated, b.truncated)
	}
	var ts []int
	for t := range a.sigs {
		ts = append(ts, int(t))
	}
	sort.Ints(ts)
	for _, ti := range ts {
		t := gopacket.LayerType(ti)
		if a.sigs[t] != b.sigs[t] {
			d := sig.Diff(a.sigs[t], b.sigs[t])
			return t.String() + ":" + fieldOf(a.sigs[t], b.sigs[t]), d
		}
	}
	return "", ""
}

// fieldOf names the top-level exported field in which two layer signatures first differ.
func fieldOf(a, b string) string {
	i := 0
	for i < len(a) && i < len(b) && a[i] == b[i] {
		i++
	}
	if f := sig.FieldPath(a, i); f != "" {
		return f
	}
	return "?"
}

type info struct {
	layers int
}

func runCase(c *Case) (f *vh.Failure) {
	S.Guard("TestHistory", "parser", c, 60*time.Second, func() { f = runCase1(c) })
	return
}

func inSet(c *Case, t gopacket.LayerType) bool {
	for _, n := range c.Set {
		for _, lt := range newLayer(n).CanDecode().LayerTypes() {
			if lt == t {
				return true
			}
		}
	}
	return false
}

func runCase1(c *Case) *vh.Failure {
	reused := newParser(c, c.Kind)
	for pi, data := range c.Packets {
		r := reused.run(data)
		if r.panicked {
			continue // panics are C19's subject (IgnorePanic is off here: they come back as errors anyway)
		}
		// (1) fresh objects give the same result: no stale state
		fresh := newParser(c, c.Kind).run(data)
		if k, d := same(fresh, r); k != "" {
			return vh.Failf("stale:"+k, "packet %d of the history (%d bytes, first %s, set %v, %s container): decoding into reused layer objects differs from fresh objects: %s", pi, len(data), c.First, c.Set, c.Kind, d)
		}
		// (3) all containers agree
		for _, kind := range kinds {
			if kind == c.Kind {
				continue
			}
			o := newParser(c, kind).run(data)
			if k, d := same(fresh, o); k != "" {
				return vh.Failf("container:"+kind+":"+k, "packet %d: %s container disagrees with %s container: %s", pi, kind, c.Kind, d)
			}
		}
		if c.ContainersOnly {
			continue
		}
		// (2) parser vs packet decoding, leading run only
		if f := versusPacket(c, pi, data, fresh); f != nil {
			return f
		}
	}
	return nil
}

func versusPacket(c *Case, pi int, data []byte, r parserRun) *vh.Failure {
	f := versusPacket1(c, pi, data, r)
	if f != nil && strings.HasPrefix(f.Key, "parser-vs-packet:") && hasJumbogram(c, data) {
		// known finding: for IPv6 jumbograms the in-place decoder leaves the hop-by-hop header inside IPv6.Payload
		// (pinned by the repository's own TestIPv6JumbogramDecode), so the two decoders disagree about what follows
		f = vh.Failf("parser-vs-packet:ipv6-jumbogram", "[IPv6 jumbogram in the packet] %s: %s", f.Key, f.Msg)
	}
	return f
}

func hasJumbogram(c *Case, data []byte) bool {
	found := false
	vh.Recover(func() {
		p := gopacket.NewPacket(data, firstType(c.First), gopacket.DecodeOptions{DecodeStreamsAsDatagrams: true})
		for _, l := range p.Layers() {
			if ip, ok := l.(*layers.IPv6); ok && ip.Length == 0 && ip.HopByHop != nil {
				found = true
			}
		}
	})
	return found
}

func versusPacket1(c *Case, pi int, data []byte, r parserRun) *vh.Failure {
	first := firstType(c.First)
	if !inSet(c, first) {
		return nil // the parser reports the first type as unsupported without decoding anything
	}
	var p gopacket.Packet
	if pv, _ := vh.Recover(func() {
		p = gopacket.NewPacket(data, first, gopacket.DecodeOptions{DecodeStreamsAsDatagrams: true})
	}); pv != nil {
		return nil
	}
	var pl []gopacket.Layer
	all := p.Layers()
	for i, l := range all {
		if l.LayerType() == gopacket.LayerTypeDecodeFailure {
			continue
		}
		if l.LayerType() == layers.LayerTypeIPv6HopByHop && i > 0 {
			if ip, ok := all[i-1].(*layers.IPv6); ok && ip.HopByHop != nil && gopacket.Layer(ip.HopByHop) == l {
				continue // in-place decoding folds the hop-by-hop header into IPv6 (documented)
			}
		}
		pl = append(pl, l)
	}
	k := len(r.decoded)
	where := fmt.Sprintf("packet %d (%d bytes, first %s, set %v)", pi, len(data), c.First, c.Set)
	if k > len(pl) {
		return vh.Failf("parser-vs-packet:longer-run", "%s: parser reports %v but packet decoding has only %d layers %v", where, r.decoded, len(pl), types(pl))
	}
	lastIdx := map[gopacket.LayerType]int{}
	for i, t := range r.decoded {
		lastIdx[t] = i
	}
	for i := 0; i < k; i++ {
		if pl[i].LayerType() != r.decoded[i] {
			return vh.Failf("parser-vs-packet:run-type", "%s: layer %d is %v for the parser, %v for packet decoding", where, i, r.decoded[i], pl[i].LayerType())
		}
		if lastIdx[r.decoded[i]] == i {
			var ps string
			vh.Recover(func() { ps = sig.Layer(pl[i]) })
			if s, ok := r.sigs[r.decoded[i]]; ok && ps != "" && s != ps {
				return vh.Failf("parser-vs-packet:"+r.decoded[i].String()+":"+fieldOf(s, ps), "%s: layer %d (%v) differs between parser and packet decoding: %s", where, i, r.decoded[i], sig.Diff(s, ps))
			}
		}
	}
	ec := errClass(r.err)
	hasErr := p.ErrorLayer() != nil
	switch {
	case ec == "decode-error":
		if !hasErr {
			return vh.Failf("parser-vs-packet:error-only-in-parser", "%s: parser returned %v after %v but packet decoding reports no error (layers %v)", where, r.err, r.decoded, types(pl))
		}
	case strings.HasPrefix(ec, "unsupported:"):
		t := gopacket.LayerType(r.err.(gopacket.UnsupportedLayerType))
		if !(len(pl) > k && pl[k].LayerType() == t) && !hasErr {
			return vh.Failf("parser-vs-packet:unsupported", "%s: parser stops with unsupported %v after %v, packet decoding continues with %v", where, t, r.decoded, types(pl))
		}
	default:
		if len(pl) > k && inSet(c, pl[k].LayerType()) {
			return vh.Failf("parser-vs-packet:run-not-maximal", "%s: parser stopped without error after %v although the next layer %v is in its set (packet layers %v)", where, r.decoded, pl[k].LayerType(), types(pl))
		}
	}
	if r.truncated && !p.Metadata().Truncated {
		return vh.Failf("parser-vs-packet:truncated", "%s: parser says truncated, packet decoding does not", where)
	}
	if len(pl) == k && !hasErr && r.truncated != p.Metadata().Truncated {
		return vh.Failf("parser-vs-packet:truncated", "%s: truncated flag differs (parser %v, packet %v) although both decoded the same %d layers", where, r.truncated, p.Metadata().Truncated, k)
	}
	return nil
}

func types(ls []gopacket.Layer) []gopacket.LayerType {
	var t []gopacket.LayerType
	for _, l := range ls {
		t = append(t, l.LayerType())
	}
	return t
}

func genPacket(t *rapid.T) ([]byte, []string) {
	st := gen.Stack(t)
	if st.Err != nil || len(st.Bytes) == 0 {
		return gen.Seeded(t), nil
	}
	b := st.Bytes
	switch rapid.IntRange(0, 5).Draw(t, "variant") {
	case 0:
		b = gen.Mutate(t, b)
	case 1:
		b = b[:rapid.IntRange(0, len(b)).Draw(t, "cut")]
	}
	return b, st.Desc
}

func genCase(t *rapid.T) (*Case, bool) {
	c := &Case{Kind: rapid.SampledFrom(kinds).Draw(t, "kind"), First: rapid.SampledFrom([]string{"Ethernet", "Ethernet", "Ethernet", "IPv4", "IPv6"}).Draw(t, "first"), IgnoreUns: rapid.Bool().Draw(t, "ignoreuns")}
	if rapid.IntRange(0, 2).Draw(t, "fullset") > 0 {
		c.Set = append([]string(nil), layerNames...)
	} else {
		for _, n := range layerNames {
			if rapid.IntRange(0, 3).Draw(t, "in:"+n) > 0 {
				c.Set = append(c.Set, n)
			}
		}
		if len(c.Set) == 0 {
			c.Set = []string{"Ethernet"}
		}
	}
	n := rapid.IntRange(1, 12).Draw(t, "npackets")
	var prev []string
	varied := false
	for i := 0; i < n; i++ {
		var b []byte
		var desc []string
		if rapid.IntRange(0, 5).Draw(t, "useseed") == 0 {
			b = gen.Seeded(t)
		} else {
			b, desc = genPacket(t)
		}
		if c.First != "Ethernet" && len(b) > 14 && rapid.Bool().Draw(t, "strip") {
			b = b[14:]
		}
		c.Packets = append(c.Packets, b)
		if i > 0 && strings.Join(prev, ",") != strings.Join(desc, ",") {
			varied = true
		}
		prev = desc
	}
	return c, varied && n >= 2
}

// TestContainers: the lookup containers agree for every Put order, including re-registration of a type and decoding
// layers that serve several types at once.
func TestContainers(t *testing.T) {
	names := append(append([]string(nil), layerNames...), "IPv6ExtensionSkipper", "IPAny", "IPAny")
	rapid.Check(t, func(rt *rapid.T) {
		c, _ := genCase(rt)
		c.ContainersOnly = true
		c.Set = nil
		multi, repeat := false, false
		have := map[gopacket.LayerType]bool{}
		for n := rapid.IntRange(2, 12).Draw(rt, "nput"); n > 0; n-- {
			name := rapid.SampledFrom(names).Draw(rt, "put")
			c.Set = append(c.Set, name)
			ts := newLayer(name).CanDecode().LayerTypes()
			if len(ts) > 1 {
				multi = true
			}
			for _, lt := range ts {
				if have[lt] {
					repeat = true
				}
				have[lt] = true
			}
		}
		js, _ := json.Marshal(c)
		cls := []string{"containers", "kind:" + c.Kind}
		if multi {
			cls = append(cls, "multi-type-decoder")
		}
		if repeat {
			cls = append(cls, "type-registered-twice")
		}
		S.Note(vh.Hash64(js), multi && repeat, cls...)
		S.Current("TestContainers", c)
		S.Check(rt, "TestHistory", c, runCase(c))
	})
}

func TestHistory(t *testing.T) {
	rapid.Check(t, func(rt *rapid.T) {
		c, nt := genCase(rt)
		js, _ := json.Marshal(c)
		S.Note(vh.Hash64(js), nt, "kind:"+c.Kind, "first:"+c.First)
		if nt && len(js) < 2000 && S.WantSample() {
			S.Sample(c)
		}
		S.Check(rt, "TestHistory", c, runCase(c))
	})
}

// TestPairs: all ordered pairs over a palette of multi-layer corpus packets decoded into the same objects, x 4 containers.
func TestPairs(t *testing.T) {
	seeds := corpus.Seeds()
	var pal [][]byte
	seen := map[string]bool{}
	for _, s := range seeds {
		if len(s) < 34 || len(s) > 600 {
			continue
		}
		p := gopacket.NewPacket(s, layers.LayerTypeEthernet, gopacket.Default)
		key := fmt.Sprint(types(p.Layers()))
		if len(p.Layers()) >= 3 && !seen[key] {
			seen[key] = true
			pal = append(pal, s)
		}
	}
	n := 20
	if vh.Thorough() {
		n = 60
	}
	if len(pal) > n {
		pal = pal[:n]
	}
	sh, nsh := vh.Shard()
	total := int64(0)
	for i := range pal {
		if i%nsh != sh {
			continue
		}
		for j := range pal {
			for _, kind := range kinds {
				c := &Case{Packets: [][]byte{pal[i], pal[j]}, Set: layerNames, Kind: kind, First: "Ethernet", IgnoreUns: true}
				total++
				S.Note(vh.Hash64("pair", i, j, kind), i != j, "exhaustive-pair")
				S.Check(t, "TestHistory", c, runCase(c))
				if t.Failed() {
					return
				}
			}
		}
	}
	S.Extra("exhaustive_pairs_total", total)
	S.Extra("exhaustive_palette_size", len(pal))
}

func TestRegress(t *testing.T) {
	S.Regress(t, func(rf *vh.ReplayFile) (bool, *vh.Failure) {
		var c Case
		if err := json.Unmarshal(rf.Case, &c); err != nil {
			t.Fatal(err)
		}
		return true, runCase(&c)
	})
}
