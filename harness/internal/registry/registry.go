// Package registry enumerates gopacket's layer types for the harness: struct types (generated from the
// source tree by cmd/genregistry) and registered first-layer decoders (enumerated at run time).
package registry

import (
	"sort"

	"github.com/gopacket/gopacket"
	_ "github.com/gopacket/gopacket/layers"
)

// Type is one exported struct type of package layers.
type Type struct {
	Name string
	New  func() any
}

var types []Type

func add(name string, f func() any) { types = append(types, Type{name, f}) }

// Types returns all exported struct types of package layers (sorted by name).
func Types() []Type { return types }

// DecodingLayers returns the types whose pointer implements gopacket.DecodingLayer.
func DecodingLayers() []Type {
	var out []Type
	for _, t := range types {
		if _, ok := t.New().(gopacket.DecodingLayer); ok {
			out = append(out, t)
		}
	}
	return out
}

// Serializable returns the types whose pointer implements gopacket.SerializableLayer and gopacket.Layer.
func Serializable() []Type {
	var out []Type
	for _, t := range types {
		v := t.New()
		if _, ok := v.(gopacket.SerializableLayer); ok {
			out = append(out, t)
		}
	}
	return out
}

var firstLayers []gopacket.LayerType

// FirstLayers returns every registered layer type that has a decoder: every i in [0,4000) whose
// LayerType(i).String() is a key of gopacket.DecodersByLayerName with a non-nil decoder. The LayerType
// value itself is what users pass to NewPacket.
func FirstLayers() []gopacket.LayerType {
	if firstLayers != nil {
		return firstLayers
	}
	for i := 0; i < 4000; i++ {
		lt := gopacket.LayerType(i)
		if d, ok := gopacket.DecodersByLayerName[lt.String()]; ok && d != nil {
			firstLayers = append(firstLayers, lt)
		}
	}
	sort.Slice(firstLayers, func(a, b int) bool { return firstLayers[a] < firstLayers[b] })
	return firstLayers
}

// ByteDecoder is what every layer type with an in-place decoder offers, whether or not it is a full
// gopacket.DecodingLayer.
type ByteDecoder interface {
	DecodeFromBytes(data []byte, df gopacket.DecodeFeedback) error
}

// ByteDecoders lists every registered type that has a DecodeFromBytes method.
func ByteDecoders() []Type {
	var out []Type
	for _, t := range types {
		if _, ok := t.New().(ByteDecoder); ok {
			out = append(out, t)
		}
	}
	return out
}
