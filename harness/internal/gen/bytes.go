// Package gen holds the rapid generators shared by the decoding/serialisation checks (DESIGN.md §2.3).
package gen

import (
	"encoding/binary"

	"pgregory.net/rapid"

	"verifharness/internal/corpus"
)

var boundaryLens = []int{19, 20, 39, 40, 59, 60, 1499, 1500, 1501, 65535, 65536}

// expand derives n pseudo-random bytes from a drawn seed (a pure function of the draw, so replay works;
// only used for the tails of large inputs where per-byte draws would dominate the run time).
func expand(seed uint64, n int, style int) []byte {
	b := make([]byte, n)
	x := seed | 1
	for i := range b {
		x ^= x << 13
		x ^= x >> 7
		x ^= x << 17
		v := byte(x >> 24)
		switch style {
		case 1:
			v &= 3
		case 2:
			if v&3 != 0 {
				v = 0xff
			}
		}
		b[i] = v
	}
	return b
}

// Hostile draws an arbitrary byte string: lengths concentrated on 0..64, protocol boundaries and a
// log-uniform tail to 64 KiB; content uniform, low-entropy, 0xff-heavy or length-field-shaped.
func Hostile(t *rapid.T) []byte {
	var n int
	switch rapid.IntRange(0, 19).Draw(t, "lenkind") {
	case 0:
		n = rapid.SampledFrom(boundaryLens).Draw(t, "blen")
	case 1:
		n = 1 << rapid.IntRange(6, 16).Draw(t, "log")
		n = rapid.IntRange(n/2, n).Draw(t, "biglen")
	case 2, 3, 4:
		n = rapid.IntRange(65, 400).Draw(t, "midlen")
	default:
		n = rapid.IntRange(0, 64).Draw(t, "len")
	}
	style := rapid.IntRange(0, 3).Draw(t, "style")
	head := min(n, 48)
	var b []byte
	switch style {
	case 1:
		b = rapid.SliceOfN(rapid.ByteRange(0, 3), head, head).Draw(t, "head")
	case 2:
		b = rapid.SliceOfN(rapid.SampledFrom([]byte{0xff, 0xff, 0xff, 0xfe, 0x00, 0x7f, 0x80}), head, head).Draw(t, "head")
	default:
		b = rapid.SliceOfN(rapid.Byte(), head, head).Draw(t, "head")
	}
	if n > head {
		b = append(b, expand(rapid.Uint64().Draw(t, "tailseed"), n-head, style)...)
	}
	if style == 3 && n > 0 {
		// length-field-shaped: a byte/word equal to, one less/more than, or far beyond the remaining length
		k := rapid.IntRange(1, 4).Draw(t, "nfields")
		for i := 0; i < k; i++ {
			at := rapid.IntRange(0, min(n-1, 63)).Draw(t, "at")
			rem := n - at
			v := rem + rapid.SampledFrom([]int{0, -1, 1, -2, 2, -4, 4, 255, 65535, -rem}).Draw(t, "delta")
			switch rapid.IntRange(0, 3).Draw(t, "width") {
			case 0:
				b[at] = byte(v)
			case 1:
				if at+2 <= n {
					binary.BigEndian.PutUint16(b[at:], uint16(v))
				}
			case 2:
				if at+2 <= n {
					binary.LittleEndian.PutUint16(b[at:], uint16(v))
				}
			default:
				if at+4 <= n {
					binary.BigEndian.PutUint32(b[at:], uint32(v))
				}
			}
		}
	}
	return b
}

var hostileConsts = []uint32{0, 1, 2, 3, 4, 7, 8, 15, 16, 0x7f, 0x80, 0xff, 0x100, 0x7fff, 0x8000, 0xffff, 0x7fffffff, 0x80000000, 0xffffffff}

// Mutate applies 0..4 drawn mutations to a copy of b.
func Mutate(t *rapid.T, b []byte) []byte {
	b = append([]byte(nil), b...)
	k := rapid.IntRange(0, 4).Draw(t, "nmut")
	for i := 0; i < k; i++ {
		if len(b) == 0 {
			break
		}
		switch rapid.IntRange(0, 6).Draw(t, "mut") {
		case 0: // truncate
			b = b[:rapid.IntRange(0, len(b)).Draw(t, "trunc")]
		case 1: // extend
			b = append(b, rapid.SliceOfN(rapid.Byte(), 1, 16).Draw(t, "ext")...)
		case 2: // flip bit
			at := rapid.IntRange(0, len(b)-1).Draw(t, "bitat")
			b[at] ^= 1 << rapid.IntRange(0, 7).Draw(t, "bit")
		case 3, 4: // overwrite a 1/2/4-byte field with a hostile constant
			at := rapid.IntRange(0, len(b)-1).Draw(t, "fat")
			v := rapid.SampledFrom(hostileConsts).Draw(t, "const")
			switch rapid.IntRange(0, 2).Draw(t, "fw") {
			case 0:
				b[at] = byte(v)
			case 1:
				if at+2 <= len(b) {
					binary.BigEndian.PutUint16(b[at:], uint16(v))
				}
			default:
				if at+4 <= len(b) {
					binary.BigEndian.PutUint32(b[at:], v)
				}
			}
		case 5: // splice with another seed
			if s := corpus.Seeds(); len(s) > 0 {
				o := s[rapid.IntRange(0, len(s)-1).Draw(t, "splice")]
				cut := rapid.IntRange(0, len(b)).Draw(t, "cut")
				ocut := rapid.IntRange(0, len(o)).Draw(t, "ocut")
				b = append(append([]byte(nil), b[:cut]...), o[ocut:]...)
			}
		default: // set a byte to the remaining length
			at := rapid.IntRange(0, len(b)-1).Draw(t, "lat")
			b[at] = byte(len(b) - at + rapid.IntRange(-2, 2).Draw(t, "ld"))
		}
	}
	if len(b) > 70000 {
		b = b[:70000]
	}
	return b
}

// Seeded draws a seed from the repository's own packets and mutates it.
func Seeded(t *rapid.T) []byte {
	s := corpus.Seeds()
	if len(s) == 0 {
		return Hostile(t)
	}
	return Mutate(t, s[rapid.IntRange(0, len(s)-1).Draw(t, "seed")])
}

// Bytes draws from all three sources: hostile bytes, mutated seeds, protocol-aware stacks (valid or mutated).
func Bytes(t *rapid.T) ([]byte, string) {
	switch rapid.IntRange(0, 9).Draw(t, "source") {
	case 0, 1, 2:
		return Hostile(t), "hostile"
	case 3, 4, 5, 6:
		return Seeded(t), "seeded"
	default:
		st := Stack(t)
		if st.Err != nil || len(st.Bytes) == 0 {
			return Hostile(t), "hostile"
		}
		if rapid.Bool().Draw(t, "mutstack") {
			return Mutate(t, st.Bytes), "stack-mutated"
		}
		return st.Bytes, "stack"
	}
}
