package gen

import (
	"net"

	"github.com/gopacket/gopacket"
	"github.com/gopacket/gopacket/layers"
	"pgregory.net/rapid"
)

// Built is a protocol-aware packet constructed by serialising generated layer structs through gopacket.
type Built struct {
	Layers []gopacket.SerializableLayer
	Bytes  []byte
	Err    error
	First  gopacket.LayerType
	Desc   []string // what was generated (for class histograms): "vlan", "ipv4-options", "tcp-mptcp", ...
	t      *rapid.T
}

func genPort(t *rapid.T, rt bool, l string) uint16 {
	if rt {
		return uint16(rapid.IntRange(50000, 60000).Draw(t, l)) // no application decoder is registered up there
	}
	return rapid.Uint16().Draw(t, l)
}

func genMAC(t *rapid.T, l string) net.HardwareAddr {
	return net.HardwareAddr(rapid.SliceOfN(rapid.Byte(), 6, 6).Draw(t, l))
}

func genIP(t *rapid.T, n int, l string) net.IP {
	return net.IP(rapid.SliceOfN(rapid.Byte(), n, n).Draw(t, l))
}

// IPv4Options draws an option list whose total size is <= 40 bytes.
func IPv4Options(t *rapid.T) []layers.IPv4Option {
	var opts []layers.IPv4Option
	n := rapid.IntRange(0, 4).Draw(t, "nipopts")
	total := 0
	for i := 0; i < n; i++ {
		if rapid.IntRange(0, 2).Draw(t, "nop") == 0 {
			if total+1 > 40 {
				break
			}
			opts = append(opts, layers.IPv4Option{OptionType: 1, OptionLength: 1})
			total++
			continue
		}
		d := rapid.SliceOfN(rapid.Byte(), 1, 12).Draw(t, "ipoptdata")
		if total+2+len(d) > 40 {
			break
		}
		opts = append(opts, layers.IPv4Option{OptionType: rapid.SampledFrom([]uint8{7, 68, 131, 137, 148, 30}).Draw(t, "ipoptt"), OptionLength: uint8(2 + len(d)), OptionData: d})
		total += 2 + len(d)
	}
	return opts
}

// TCPOptions draws an option list of at most 40 bytes.
func TCPOptions(t *rapid.T) []layers.TCPOption {
	var opts []layers.TCPOption
	n := rapid.IntRange(0, 5).Draw(t, "ntcpopts")
	total := 0
	for i := 0; i < n; i++ {
		k := rapid.SampledFrom([]layers.TCPOptionKind{1, 1, 2, 3, 4, 5, 8, 254, 28}).Draw(t, "tcpoptk")
		if k == 1 {
			if total+1 > 40 {
				break
			}
			opts = append(opts, layers.TCPOption{OptionType: 1, OptionLength: 1})
			total++
			continue
		}
		var d []byte
		switch k {
		case 2:
			d = rapid.SliceOfN(rapid.Byte(), 2, 2).Draw(t, "mss")
		case 3:
			d = rapid.SliceOfN(rapid.Byte(), 1, 1).Draw(t, "ws")
		case 4:
			d = nil
		case 8:
			d = rapid.SliceOfN(rapid.Byte(), 8, 8).Draw(t, "ts")
		case 5:
			d = rapid.SliceOfN(rapid.Byte(), 8, 8).Draw(t, "sack")
		default:
			d = rapid.SliceOfN(rapid.Byte(), 0, 10).Draw(t, "optd")
		}
		if total+2+len(d) > 40 {
			break
		}
		opts = append(opts, layers.TCPOption{OptionType: k, OptionLength: uint8(2 + len(d)), OptionData: d})
		total += 2 + len(d)
	}
	return opts
}

func dnsName(t *rapid.T, l string) []byte {
	return []byte(rapid.StringMatching(`[a-z]{1,8}(\.[a-z]{1,6}){0,2}`).Draw(t, l))
}

// dnsRecord draws a resource record of one of the commonly seen types.
func dnsRecord(t *rapid.T) layers.DNSResourceRecord {
	rr := layers.DNSResourceRecord{Name: dnsName(t, "rrname"), Class: layers.DNSClassIN, TTL: rapid.Uint32().Draw(t, "rrttl")}
	switch rapid.IntRange(0, 8).Draw(t, "rrkind") {
	case 0:
		rr.Type, rr.IP = layers.DNSTypeAAAA, genIP(t, 16, "rrip6")
	case 1:
		rr.Type, rr.NS = layers.DNSTypeNS, dnsName(t, "rrns")
	case 2:
		rr.Type, rr.CNAME = layers.DNSTypeCNAME, dnsName(t, "rrcname")
	case 3:
		rr.Type, rr.PTR = layers.DNSTypePTR, dnsName(t, "rrptr")
	case 4:
		rr.Type, rr.MX = layers.DNSTypeMX, layers.DNSMX{Preference: rapid.Uint16().Draw(t, "mxpref"), Name: dnsName(t, "mxname")}
	case 5, 6: // one to three character strings (long SPF/DKIM values are split like this)
		rr.Type = layers.DNSTypeTXT
		for i, n := 0, rapid.IntRange(1, 3).Draw(t, "ntxt"); i < n; i++ {
			rr.TXTs = append(rr.TXTs, []byte(rapid.StringMatching(`[a-z=~ ]{0,12}`).Draw(t, "txt")))
		}
	case 7:
		rr.Type, rr.SRV = layers.DNSTypeSRV, layers.DNSSRV{Priority: rapid.Uint16().Draw(t, "srvp"), Weight: rapid.Uint16().Draw(t, "srvw"), Port: rapid.Uint16().Draw(t, "srvport"), Name: dnsName(t, "srvname")}
	default:
		rr.Type = layers.DNSTypeSOA
		rr.SOA = layers.DNSSOA{MName: dnsName(t, "mname"), RName: dnsName(t, "rname"), Serial: rapid.Uint32().Draw(t, "serial"), Refresh: 3600, Retry: 600, Expire: 86400, Minimum: 60}
	}
	return rr
}

// Payload draws an application payload: empty, odd, even, or around a page.
func Payload(t *rapid.T, maxLen int) []byte {
	switch rapid.IntRange(0, 5).Draw(t, "plkind") {
	case 0:
		return []byte{}
	case 1:
		return rapid.SliceOfN(rapid.Byte(), 1, 7).Draw(t, "pl")
	case 2:
		n := rapid.IntRange(46, min(maxLen, 1460)).Draw(t, "pln")
		return expand(rapid.Uint64().Draw(t, "plseed"), n, 0)
	default:
		return rapid.SliceOfN(rapid.Byte(), 0, min(maxLen, 80)).Draw(t, "pl")
	}
}

var ser = gopacket.SerializeOptions{FixLengths: true, ComputeChecksums: true}

// Stack draws Ethernet [Dot1Q x0..2] (IPv4 | IPv6 [+ext]) (TCP | UDP | ICMPv4 | ICMPv6 | GRE) [DNS | payload].
func Stack(t *rapid.T) *Built { return stack(t, false) }

// StackRT draws the same family of stacks restricted to values a serialize->decode round trip must preserve:
// option lists padded to 32 bits with NOPs (trailing zero padding decodes as an End-of-Options entry), ports
// without a registered application decoder, echo messages with their echo header, optional fields zero
// when their presence flag is off.
func StackRT(t *rapid.T) *Built { return stack(t, true) }

func stack(t *rapid.T, rt bool) *Built {
	b := &Built{First: layers.LayerTypeEthernet, t: t}
	eth := &layers.Ethernet{SrcMAC: genMAC(t, "smac"), DstMAC: genMAC(t, "dmac")}
	b.Layers = append(b.Layers, eth)
	nv := rapid.SampledFrom([]int{0, 0, 0, 1, 2}).Draw(t, "nvlan")
	var lastVlan *layers.Dot1Q
	for i := 0; i < nv; i++ {
		v := &layers.Dot1Q{Priority: uint8(rapid.IntRange(0, 7).Draw(t, "prio")), DropEligible: rapid.Bool().Draw(t, "dei"), VLANIdentifier: uint16(rapid.IntRange(0, 4095).Draw(t, "vid"))}
		if lastVlan == nil {
			eth.EthernetType = layers.EthernetTypeDot1Q
		} else {
			lastVlan.Type = layers.EthernetTypeDot1Q
		}
		lastVlan = v
		b.Layers = append(b.Layers, v)
		b.Desc = append(b.Desc, "vlan")
	}
	setType := func(et layers.EthernetType) {
		if lastVlan != nil {
			lastVlan.Type = et
		} else {
			eth.EthernetType = et
		}
	}
	v6 := rapid.Bool().Draw(t, "v6")
	l4 := rapid.SampledFrom([]string{"tcp", "tcp", "udp", "udp", "icmp", "gre", "arp"}).Draw(t, "l4")
	if l4 == "arp" {
		setType(layers.EthernetTypeARP)
		b.Layers = append(b.Layers, &layers.ARP{AddrType: layers.LinkTypeEthernet, Protocol: layers.EthernetTypeIPv4, HwAddressSize: 6, ProtAddressSize: 4,
			Operation: uint16(rapid.IntRange(1, 2).Draw(t, "arpop")), SourceHwAddress: genMAC(t, "sha"), SourceProtAddress: genIP(t, 4, "spa"),
			DstHwAddress: genMAC(t, "tha"), DstProtAddress: genIP(t, 4, "tpa")})
		b.Desc = append(b.Desc, "arp")
		return b.finish()
	}
	var nl gopacket.NetworkLayer
	proto := map[string]layers.IPProtocol{"tcp": layers.IPProtocolTCP, "udp": layers.IPProtocolUDP, "gre": layers.IPProtocolGRE}[l4]
	if v6 {
		setType(layers.EthernetTypeIPv6)
		if l4 == "icmp" {
			proto = layers.IPProtocolICMPv6
		}
		ip := &layers.IPv6{Version: 6, TrafficClass: rapid.Byte().Draw(t, "tc"), FlowLabel: rapid.Uint32Range(0, 0xfffff).Draw(t, "fl"), HopLimit: rapid.Byte().Draw(t, "hl"),
			SrcIP: genIP(t, 16, "src6"), DstIP: genIP(t, 16, "dst6"), NextHeader: proto}
		b.Layers = append(b.Layers, ip)
		nl = ip
		b.Desc = append(b.Desc, "ipv6")
		hbh := (*layers.IPv6HopByHop)(nil)
		if !rt && rapid.IntRange(0, 3).Draw(t, "v6hbh") == 0 {
			// hop-by-hop options extension header (router alert, small unknown options), written as its own layer
			hbh = &layers.IPv6HopByHop{}
			hbh.NextHeader = proto
			ip.NextHeader = layers.IPProtocolIPv6HopByHop
			n := rapid.IntRange(0, 3).Draw(t, "nhbhopts")
			for i := 0; i < n; i++ {
				od := rapid.SliceOfN(rapid.Byte(), 0, 6).Draw(t, "hbhoptdata")
				hbh.Options = append(hbh.Options, &layers.IPv6HopByHopOption{OptionType: rapid.SampledFrom([]uint8{0x05, 0x1e, 0x3e, 1}).Draw(t, "hbhoptt"), OptionLength: uint8(len(od)), OptionData: od})
			}
			b.Layers = append(b.Layers, hbh)
			b.Desc = append(b.Desc, "ipv6-hopbyhop")
		}
		if rapid.IntRange(0, 3).Draw(t, "v6dest") == 0 {
			// destination options extension header with 0..3 options of every length 0..6
			d := &layers.IPv6Destination{}
			d.NextHeader = proto
			if hbh != nil {
				hbh.NextHeader = layers.IPProtocolIPv6Destination
			} else {
				ip.NextHeader = layers.IPProtocolIPv6Destination
			}
			n := rapid.IntRange(0, 3).Draw(t, "ndestopts")
			for i := 0; i < n; i++ {
				od := rapid.SliceOfN(rapid.Byte(), 0, 6).Draw(t, "destoptdata")
				d.Options = append(d.Options, &layers.IPv6DestinationOption{OptionType: rapid.SampledFrom([]uint8{0x1e, 0x3e, 1}).Draw(t, "destoptt"), OptionLength: uint8(len(od)), OptionData: od})
			}
			b.Layers = append(b.Layers, d)
			b.Desc = append(b.Desc, "ipv6-destination")
		}
	} else {
		setType(layers.EthernetTypeIPv4)
		if l4 == "icmp" {
			proto = layers.IPProtocolICMPv4
		}
		ip := &layers.IPv4{Version: 4, TOS: rapid.Byte().Draw(t, "tos"), Id: rapid.Uint16().Draw(t, "ipid"), TTL: rapid.Byte().Draw(t, "ttl"),
			SrcIP: genIP(t, 4, "src4"), DstIP: genIP(t, 4, "dst4"), Protocol: proto, Options: IPv4Options(t)}
		if rt {
			n := 0
			for _, o := range ip.Options {
				n += int(o.OptionLength)
			}
			for ; n%4 != 0; n++ {
				ip.Options = append(ip.Options, layers.IPv4Option{OptionType: 1, OptionLength: 1})
			}
		}
		if !rt {
			// explicit padding behind the options (a decoded header keeps whatever bytes followed the last option)
			n := 0
			for _, o := range ip.Options {
				n += int(o.OptionLength)
			}
			if n++; n%4 != 0 && n < 40 && rapid.Bool().Draw(t, "ip4pad") {
				// End-of-Option-List, then whatever bytes follow it up to the 32 bit boundary
				ip.Options = append(ip.Options, layers.IPv4Option{OptionType: 0, OptionLength: 1})
				ip.Padding = rapid.SliceOfN(rapid.Byte(), 4-n%4, 4-n%4).Draw(t, "ip4padding")
				b.Desc = append(b.Desc, "ipv4-explicit-padding")
			}
		}
		if rapid.IntRange(0, 3).Draw(t, "df") == 0 {
			ip.Flags = layers.IPv4DontFragment
		}
		if len(ip.Options) > 0 {
			b.Desc = append(b.Desc, "ipv4-options")
		}
		b.Layers = append(b.Layers, ip)
		nl = ip
		b.Desc = append(b.Desc, "ipv4")
	}
	switch l4 {
	case "tcp":
		tc := &layers.TCP{SrcPort: layers.TCPPort(genPort(t, rt, "sport")), DstPort: layers.TCPPort(genPort(t, rt, "dport")),
			Seq: rapid.Uint32().Draw(t, "seq"), Ack: rapid.Uint32().Draw(t, "ack"), Window: rapid.Uint16().Draw(t, "win"), Urgent: rapid.Uint16().Draw(t, "urg"),
			SYN: rapid.Bool().Draw(t, "syn"), ACK: rapid.Bool().Draw(t, "ackf"), PSH: rapid.Bool().Draw(t, "psh"), FIN: rapid.Bool().Draw(t, "fin"), Options: TCPOptions(t)}
		if !rt && rapid.IntRange(0, 4).Draw(t, "mptcp") == 0 {
			// a Multipath TCP option (kind 30) of any subtype, often shorter than its subtype needs
			d := rapid.SliceOfN(rapid.Byte(), 0, 18).Draw(t, "mptcpdata")
			if len(d) > 0 {
				d[0] = byte(rapid.IntRange(0, 9).Draw(t, "mpsub"))<<4 | d[0]&0x0f
			}
			tc.Options = append(tc.Options, layers.TCPOption{OptionType: 30, OptionLength: uint8(2 + len(d)), OptionData: d})
			b.Desc = append(b.Desc, "tcp-mptcp")
		}
		eol := rapid.IntRange(0, 3).Draw(t, "tcpeol") == 0 // the list ends with an explicit End-of-Option-List entry
		if rt {
			n := 0
			for _, o := range tc.Options {
				n += int(o.OptionLength)
			}
			if eol {
				n++
			}
			if n <= 40 {
				for ; n%4 != 0; n++ {
					tc.Options = append(tc.Options, layers.TCPOption{OptionType: 1, OptionLength: 1})
				}
			} else {
				eol = false
			}
		}
		if eol {
			tc.Options = append(tc.Options, layers.TCPOption{OptionType: 0, OptionLength: 1})
			b.Desc = append(b.Desc, "tcp-eol")
		}
		tc.SetNetworkLayerForChecksum(nl)
		if len(tc.Options) > 0 {
			b.Desc = append(b.Desc, "tcp-options")
		}
		b.Layers = append(b.Layers, tc)
		b.Desc = append(b.Desc, "tcp")
	case "udp":
		u := &layers.UDP{SrcPort: layers.UDPPort(genPort(t, rt, "sport")), DstPort: layers.UDPPort(genPort(t, rt, "dport"))}
		if rapid.IntRange(0, 3).Draw(t, "dns") == 0 {
			u.DstPort = 53
		}
		u.SetNetworkLayerForChecksum(nl)
		b.Layers = append(b.Layers, u)
		b.Desc = append(b.Desc, "udp")
		if u.DstPort == 53 || u.SrcPort == 53 {
			d := &layers.DNS{ID: rapid.Uint16().Draw(t, "dnsid"), RD: rapid.Bool().Draw(t, "rd"), OpCode: layers.DNSOpCodeQuery}
			nq := rapid.IntRange(0, 2).Draw(t, "nq")
			for i := 0; i < nq; i++ {
				d.Questions = append(d.Questions, layers.DNSQuestion{Name: []byte(rapid.StringMatching(`[a-z]{1,8}(\.[a-z]{1,6}){0,2}`).Draw(t, "qname")), Type: layers.DNSTypeA, Class: layers.DNSClassIN})
			}
			if rapid.Bool().Draw(t, "dnsans") {
				d.QR = true
				d.Answers = append(d.Answers, layers.DNSResourceRecord{Name: []byte("example.com"), Type: layers.DNSTypeA, Class: layers.DNSClassIN, TTL: rapid.Uint32().Draw(t, "dnsttl"), IP: genIP(t, 4, "dnsip")})
				if rt {
					a := &d.Answers[len(d.Answers)-1]
					a.Data, a.DataLength = append([]byte(nil), a.IP...), 4 // what decoding reports alongside IP
				} else {
					// more record types in every section (not in round-trip stacks: their decoded form carries extra raw fields)
					for i, n := 0, rapid.IntRange(0, 3).Draw(t, "dnsmore"); i < n; i++ {
						rr := dnsRecord(t)
						switch rapid.IntRange(0, 2).Draw(t, "dnssection") {
						case 0:
							d.Answers = append(d.Answers, rr)
						case 1:
							d.Authorities = append(d.Authorities, rr)
						default:
							d.Additionals = append(d.Additionals, rr)
						}
					}
				}
			}
			b.Layers = append(b.Layers, d)
			b.Desc = append(b.Desc, "dns")
			return b.finish()
		}
	case "icmp":
		if v6 {
			ic := &layers.ICMPv6{TypeCode: layers.CreateICMPv6TypeCode(rapid.SampledFrom([]uint8{128, 129, 1, 3, 135, 135, 136}).Draw(t, "i6t"), 0)}
			if rt && (ic.TypeCode.Type() == 1 || ic.TypeCode.Type() == 3) {
				ic.TypeCode = layers.CreateICMPv6TypeCode(128, 0)
			}
			ic.SetNetworkLayerForChecksum(nl)
			b.Layers = append(b.Layers, ic)
			b.Desc = append(b.Desc, "icmpv6")
			if t := ic.TypeCode.Type(); t == 135 || t == 136 {
				return b.ndp(t2(t), ic)
			}
			if ty := ic.TypeCode.Type(); rt && (ty == 128 || ty == 129) {
				b.Layers = append(b.Layers, &layers.ICMPv6Echo{Identifier: rapid.Uint16().Draw(t, "echoid"), SeqNumber: rapid.Uint16().Draw(t, "echoseq")})
			}
		} else {
			b.Layers = append(b.Layers, &layers.ICMPv4{TypeCode: layers.CreateICMPv4TypeCode(rapid.SampledFrom([]uint8{0, 8, 3, 11}).Draw(t, "i4t"), uint8(rapid.IntRange(0, 3).Draw(t, "i4c"))),
				Id: rapid.Uint16().Draw(t, "icid"), Seq: rapid.Uint16().Draw(t, "icseq")})
			b.Desc = append(b.Desc, "icmpv4")
		}
	case "gre":
		g := &layers.GRE{Protocol: layers.EthernetType(0x88b5), ChecksumPresent: rapid.Bool().Draw(t, "grec"), KeyPresent: rapid.Bool().Draw(t, "grek"), SeqPresent: rapid.Bool().Draw(t, "gres"),
			Key: rapid.Uint32().Draw(t, "grekey"), Seq: rapid.Uint32().Draw(t, "greseq")}
		b.Layers = append(b.Layers, g)
		b.Desc = append(b.Desc, "gre")
		if rt {
			if !g.KeyPresent {
				g.Key = 0
			}
			if !g.SeqPresent {
				g.Seq = 0
			}
			// an inner packet, so that every byte of the frame belongs to a decoded layer
			g.Protocol = layers.EthernetTypeIPv4
			in := &layers.IPv4{Version: 4, TTL: 9, Id: rapid.Uint16().Draw(t, "inid"), SrcIP: genIP(t, 4, "insrc"), DstIP: genIP(t, 4, "indst"), Protocol: layers.IPProtocolUDP}
			iu := &layers.UDP{SrcPort: layers.UDPPort(genPort(t, true, "insport")), DstPort: layers.UDPPort(genPort(t, true, "indport"))}
			iu.SetNetworkLayerForChecksum(in)
			b.Layers = append(b.Layers, in, iu)
		} else {
			switch rapid.IntRange(0, 3).Draw(t, "greinner") {
			case 0: // transparent Ethernet bridging: a whole inner frame, with its own link layer behind the outer network layer
				g.Protocol = layers.EthernetTypeTransparentEthernetBridging
				ie := &layers.Ethernet{SrcMAC: genMAC(t, "insmac"), DstMAC: genMAC(t, "indmac"), EthernetType: layers.EthernetTypeIPv4}
				in := &layers.IPv4{Version: 4, TTL: 9, Id: rapid.Uint16().Draw(t, "inid"), SrcIP: genIP(t, 4, "insrc"), DstIP: genIP(t, 4, "indst"), Protocol: layers.IPProtocolUDP}
				iu := &layers.UDP{SrcPort: layers.UDPPort(genPort(t, false, "insport")), DstPort: layers.UDPPort(genPort(t, false, "indport"))}
				iu.SetNetworkLayerForChecksum(in)
				b.Layers = append(b.Layers, ie, in, iu)
				b.Desc = append(b.Desc, "gre-ethernet")
			case 1: // an inner IPv4 packet
				g.Protocol = layers.EthernetTypeIPv4
				in := &layers.IPv4{Version: 4, TTL: 9, Id: rapid.Uint16().Draw(t, "inid"), SrcIP: genIP(t, 4, "insrc"), DstIP: genIP(t, 4, "indst"), Protocol: layers.IPProtocolUDP}
				iu := &layers.UDP{SrcPort: layers.UDPPort(genPort(t, false, "insport")), DstPort: layers.UDPPort(genPort(t, false, "indport"))}
				iu.SetNetworkLayerForChecksum(in)
				b.Layers = append(b.Layers, in, iu)
				b.Desc = append(b.Desc, "gre-ipv4")
			}
		}
	}
	pl := Payload(t, 1400)
	b.Layers = append(b.Layers, gopacket.Payload(pl))
	return b.finish()
}

// ndpFn is set by Stack so that the NDP builder can draw.
type ndpDraw struct {
	t *rapid.T
}

func t2(x uint8) uint8 { return x }

func (b *Built) ndp(typ uint8, ic *layers.ICMPv6) *Built {
	t := b.t
	var opts layers.ICMPv6Options
	n := rapid.IntRange(0, 4).Draw(t, "nndpopts")
	for i := 0; i < n; i++ {
		k := rapid.SampledFrom([]layers.ICMPv6Opt{layers.ICMPv6OptSourceAddress, layers.ICMPv6OptTargetAddress, layers.ICMPv6OptMTU}).Draw(t, "ndpoptt")
		l := 6
		if rapid.IntRange(0, 3).Draw(t, "ndplong") == 0 {
			l = 14
		}
		opts = append(opts, layers.ICMPv6Option{Type: k, Data: rapid.SliceOfN(rapid.Byte(), l, l).Draw(t, "ndpoptd")})
	}
	target := genIP(t, 16, "ndptarget")
	if typ == 135 {
		b.Layers = append(b.Layers, &layers.ICMPv6NeighborSolicitation{TargetAddress: target, Options: opts})
	} else {
		b.Layers = append(b.Layers, &layers.ICMPv6NeighborAdvertisement{Flags: rapid.SampledFrom([]uint8{0, 0x20, 0x40, 0x80, 0xe0}).Draw(t, "naflags"), TargetAddress: target, Options: opts})
	}
	b.Desc = append(b.Desc, "ndp")
	if len(opts) >= 2 {
		b.Desc = append(b.Desc, "ndp-options>=2")
	}
	return b.finish()
}

func (b *Built) finish() *Built {
	buf := gopacket.NewSerializeBuffer()
	defer func() {
		if r := recover(); r != nil {
			b.Err = errPanic{r}
		}
	}()
	if err := gopacket.SerializeLayers(buf, ser, b.Layers...); err != nil {
		b.Err = err
		return b
	}
	b.Bytes = append([]byte(nil), buf.Bytes()...)
	return b
}

type errPanic struct{ v any }

func (e errPanic) Error() string { return "panic during serialisation" }

// StackSuffix draws a stack and returns it from one of its inner layers on, together with that layer's type: a
// capture that starts above the link layer (raw IP, the payload of a tunnel), decoded with the matching first layer.
func StackSuffix(t *rapid.T) ([]byte, gopacket.LayerType, bool) {
	st := Stack(t)
	if st.Err != nil || len(st.Bytes) == 0 {
		return nil, 0, false
	}
	p := gopacket.NewPacket(st.Bytes, st.First, gopacket.DecodeOptions{NoCopy: true})
	ls := p.Layers()
	if len(ls) < 3 {
		return nil, 0, false
	}
	k := rapid.IntRange(1, min(len(ls)-2, 4)).Draw(t, "suffixfrom")
	off := 0
	for i := 0; i < k; i++ {
		off += len(ls[i].LayerContents())
	}
	lt := ls[k].LayerType()
	if off >= len(st.Bytes) || lt == gopacket.LayerTypePayload || lt == gopacket.LayerTypeDecodeFailure || lt == gopacket.LayerTypeFragment {
		return nil, 0, false
	}
	return append([]byte(nil), st.Bytes[off:]...), lt, true
}
