// Package fill builds layer values through their public fields (ReflectFill) and deep-copies them, for the
// serialisation checks (DESIGN.md §2.3).
package fill

import (
	"net"
	"reflect"
)

type prng struct{ x uint64 }

func (p *prng) next() uint64 {
	p.x ^= p.x << 13
	p.x ^= p.x >> 7
	p.x ^= p.x << 17
	return p.x
}
func (p *prng) intn(n int) int { return int(p.next() % uint64(n)) }

var ipType = reflect.TypeOf(net.IP{})
var hwType = reflect.TypeOf(net.HardwareAddr{})

// Fill sets every settable exported field of the struct pointed to by ptr from a deterministic stream derived
// from seed: integers over the full range with a bias to 0/1/max, slices of length 0..6, byte strings of
// 0..20 bytes, IP addresses of length {0,4,16,other}, pointers nil or filled, nested structs and lists.
func Fill(ptr any, seed uint64) {
	p := &prng{seed | 1}
	fillValue(reflect.ValueOf(ptr).Elem(), p, 0)
}

func fillInt(p *prng, bits int) uint64 {
	switch p.intn(6) {
	case 0:
		return 0
	case 1:
		return 1
	case 2:
		return ^uint64(0) >> (64 - bits)
	case 3:
		return uint64(p.intn(16))
	default:
		return p.next() >> (64 - bits)
	}
}

func fillValue(v reflect.Value, p *prng, depth int) {
	if !v.CanSet() || depth > 5 {
		return
	}
	switch v.Kind() {
	case reflect.Bool:
		v.SetBool(p.intn(2) == 0)
	case reflect.Uint8, reflect.Uint16, reflect.Uint32, reflect.Uint64, reflect.Uint:
		v.SetUint(fillInt(p, v.Type().Bits()))
	case reflect.Int8, reflect.Int16, reflect.Int32, reflect.Int64, reflect.Int:
		v.SetInt(int64(fillInt(p, v.Type().Bits())))
	case reflect.String:
		b := make([]byte, p.intn(12))
		for i := range b {
			b[i] = byte('a' + p.intn(26))
		}
		v.SetString(string(b))
	case reflect.Slice:
		if v.Type() == ipType {
			n := []int{0, 4, 16, 16, 4, 7}[p.intn(6)]
			b := make([]byte, n)
			for i := range b {
				b[i] = byte(p.next())
			}
			v.SetBytes(b)
			return
		}
		if v.Type() == hwType {
			n := []int{6, 6, 6, 0, 8, 3}[p.intn(6)]
			b := make([]byte, n)
			for i := range b {
				b[i] = byte(p.next())
			}
			v.SetBytes(b)
			return
		}
		if v.Type().Elem().Kind() == reflect.Uint8 {
			n := p.intn(21)
			if p.intn(4) == 0 {
				n = 0
			}
			b := reflect.MakeSlice(v.Type(), n, n)
			for i := 0; i < n; i++ {
				b.Index(i).SetUint(p.next() & 0xff)
			}
			v.Set(b)
			return
		}
		n := p.intn(7)
		if depth > 2 {
			n = p.intn(3)
		}
		s := reflect.MakeSlice(v.Type(), n, n)
		for i := 0; i < n; i++ {
			fillValue(s.Index(i), p, depth+1)
		}
		v.Set(s)
	case reflect.Array:
		for i := 0; i < v.Len(); i++ {
			fillValue(v.Index(i), p, depth+1)
		}
	case reflect.Ptr:
		if p.intn(3) == 0 || depth > 3 {
			return // nil
		}
		n := reflect.New(v.Type().Elem())
		fillValue(n.Elem(), p, depth+1)
		v.Set(n)
	case reflect.Struct:
		for i := 0; i < v.NumField(); i++ {
			f := v.Type().Field(i)
			if f.PkgPath != "" && !f.Anonymous {
				continue
			}
			if f.Name == "BaseLayer" || f.Name == "Contents" || f.Name == "Payload" && depth == 0 {
				continue // decode-side bookkeeping, not a field users build
			}
			fillValue(v.Field(i), p, depth+1)
		}
	}
}

// Copy returns a copy of the struct pointed to by ptr in which everything reachable through exported fields
// (slices, pointers, nested structs) is duplicated; unexported fields are copied by value.
func Copy(ptr any) any {
	src := reflect.ValueOf(ptr)
	if src.Kind() != reflect.Ptr {
		n := reflect.New(src.Type())
		n.Elem().Set(src)
		deep(n.Elem(), src, 0)
		return n.Elem().Interface()
	}
	n := reflect.New(src.Type().Elem())
	n.Elem().Set(src.Elem())
	deep(n.Elem(), src.Elem(), 0)
	return n.Interface()
}

func deep(dst, src reflect.Value, depth int) {
	if depth > 8 || !dst.CanSet() {
		return
	}
	switch src.Kind() {
	case reflect.Slice:
		if src.IsNil() {
			return
		}
		s := reflect.MakeSlice(src.Type(), src.Len(), src.Len())
		reflect.Copy(s, src)
		for i := 0; i < src.Len(); i++ {
			deep(s.Index(i), src.Index(i), depth+1)
		}
		dst.Set(s)
	case reflect.Ptr:
		if src.IsNil() {
			return
		}
		n := reflect.New(src.Type().Elem())
		n.Elem().Set(src.Elem())
		deep(n.Elem(), src.Elem(), depth+1)
		dst.Set(n)
	case reflect.Struct:
		for i := 0; i < src.NumField(); i++ {
			f := src.Type().Field(i)
			if f.PkgPath != "" && !f.Anonymous {
				continue
			}
			deep(dst.Field(i), src.Field(i), depth+1)
		}
	case reflect.Array:
		for i := 0; i < src.Len(); i++ {
			deep(dst.Index(i), src.Index(i), depth+1)
		}
	}
}
