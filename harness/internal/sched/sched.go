// Package sched is a cooperative controlled scheduler: the goroutines of a test run as coroutines of a
// controller, exactly one at a time, switching only at yield points; the order is a drawn schedule
// (DESIGN.md §5 C12). A deadlock is exact: some goroutine is unfinished and none is runnable.
package sched

import (
	"fmt"
	"runtime/debug"
	"sync"
)

type proc struct {
	id       int
	name     string
	resume   chan struct{}
	yielded  chan string // site of the yield, or "" when finished
	done     bool
	lockBusy bool // last yield was "lock busy": not runnable until some goroutine made progress (anything but a failed probe)
	started  bool
	fn       func()
}

// Controller runs procs one at a time.
type Controller struct {
	procs     []*proc
	cur       *proc
	Schedule  []int
	Tail      uint64 // 0: after the schedule the lowest runnable goroutine runs; else seed of a pseudo-random continuation
	tailState uint64
	pos       int
	Trace     []string
	Panic     string // first panic of any proc (value + stack)
	PanicFn   string
	Deadlock  bool
	Steps     int
	// Contention statistics
	LockBusyYields int
	PoolLockBusy   int
	maxSteps       int
}

// New creates a controller with the given schedule (list of small ints taken modulo the runnable set).
func New(schedule []int) *Controller { return &Controller{Schedule: schedule, maxSteps: 200000} }

// SetTail selects the continuation used once the schedule is exhausted.
func (c *Controller) SetTail(seed uint64) { c.Tail, c.tailState = seed, seed }

// Go registers a goroutine.
func (c *Controller) Go(name string, fn func()) {
	c.procs = append(c.procs, &proc{id: len(c.procs), name: name, resume: make(chan struct{}), yielded: make(chan string), fn: fn})
}

// CurrentID returns the index (registration order) of the running goroutine, or -1 outside Run.
func (c *Controller) CurrentID() int {
	if c.cur == nil {
		return -1
	}
	return c.cur.id
}

// Yield is called by the running goroutine at a yield site.
func (c *Controller) Yield(site string) {
	p := c.cur
	if p == nil {
		return // not under control (e.g. final single-threaded phase)
	}
	p.yielded <- site
	<-p.resume
}

// BeforeLock is the lock hook: yields once, then probes the mutex and yields "lock busy" while it is held.
func (c *Controller) BeforeLock(mu *sync.Mutex) {
	if c.cur == nil {
		return
	}
	c.Yield("before-lock")
	for {
		if mu.TryLock() {
			mu.Unlock() // nobody else runs between this probe and the real Lock
			return
		}
		c.LockBusyYields++
		c.Yield("lock-busy")
	}
}

// BeforeRWLock is the pool-lock hook: yields once, then probes the lock and yields "lock busy" while it cannot be
// taken in the requested mode.
func (c *Controller) BeforeRWLock(mu *sync.RWMutex, write bool) {
	if c.cur == nil {
		return
	}
	if write {
		// A switch before a read lock adds nothing over the switch points around it; a read lock is only probed.
		c.Yield("before-pool-lock")
	}
	for {
		if write {
			if mu.TryLock() {
				mu.Unlock()
				return
			}
		} else if mu.TryRLock() {
			mu.RUnlock()
			return
		}
		c.LockBusyYields++
		c.PoolLockBusy++
		c.Yield("lock-busy")
	}
}

// Run executes all registered goroutines under the schedule. It returns when all finished, on deadlock,
// or when a goroutine panicked.
func (c *Controller) Run() {
	for _, p := range c.procs {
		p := p
		go func() {
			<-p.resume
			defer func() {
				if r := recover(); r != nil {
					if c.Panic == "" {
						c.Panic = fmt.Sprintf("%v\n%s", r, debug.Stack())
					}
				}
				p.yielded <- ""
			}()
			p.fn()
		}()
	}
	for {
		var runnable []*proc
		unfinished := 0
		for _, p := range c.procs {
			if p.done {
				continue
			}
			unfinished++
			if !p.lockBusy {
				runnable = append(runnable, p)
			}
		}
		if unfinished == 0 {
			c.cur = nil
			return
		}
		if len(runnable) == 0 {
			c.Deadlock = true
			c.cur = nil
			return
		}
		if c.Steps >= c.maxSteps {
			c.Deadlock = true // livelock guard
			c.cur = nil
			return
		}
		var pick *proc
		if c.pos < len(c.Schedule) {
			pick = runnable[c.Schedule[c.pos]%len(runnable)]
			c.pos++
		} else if c.Tail == 0 {
			pick = runnable[0] // schedule exhausted: run the lowest runnable to completion
		} else {
			// schedule exhausted: a fixed pseudo-random continuation, a pure function of Tail
			c.tailState = c.tailState*6364136223846793005 + 1442695040888963407
			pick = runnable[int((c.tailState>>33)%uint64(len(runnable)))]
		}
		c.Steps++
		c.cur = pick
		pick.resume <- struct{}{}
		site := <-pick.yielded
		if len(c.Trace) < 400 {
			c.Trace = append(c.Trace, fmt.Sprintf("%s:%s", pick.name, site))
		}
		if site == "" {
			pick.done = true
		}
		if site == "lock-busy" {
			// a failed probe changes nothing: the goroutine waits until somebody makes real progress
			pick.lockBusy = true
		} else {
			for _, p := range c.procs {
				p.lockBusy = false
			}
		}
		if c.Panic != "" {
			c.cur = nil
			return
		}
	}
}
