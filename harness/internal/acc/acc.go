// Package acc interprets accessor programs: sequences of read-only calls on a decoded packet. Each step
// yields a canonical string so that runs can be compared (lazy vs eager, reader vs reader, before vs after).
package acc

import (
	"fmt"
	"regexp"
	"strings"

	"github.com/gopacket/gopacket"
	"github.com/gopacket/gopacket/layers"
	"pgregory.net/rapid"

	"verifharness/internal/registry"
	"verifharness/internal/sig"
	"verifharness/internal/vh"
)

// Step is one accessor call.
type Step struct {
	Op  string `json:"op"`
	Arg int    `json:"arg,omitempty"`
}

// Classes are the exported layer classes of the library.
var Classes = []gopacket.LayerClass{
	layers.LayerClassIPNetwork, layers.LayerClassIPTransport, layers.LayerClassIPControl, layers.LayerClassSCTPChunk,
	layers.LayerClassIPv6Extension, layers.LayerClassIPSec, layers.LayerClassICMPv6NDP, layers.LayerClassMLDv1, layers.LayerClassMLDv2,
	gopacket.LayerTypePayload, gopacket.LayerTypeDecodeFailure, gopacket.LayerTypeFragment,
}

// Ops usable in every context (read-only).
var ReadOnlyOps = []string{"Layers", "Layer", "LayerClass", "Link", "Network", "Transport", "Application", "Error", "String", "Dump",
	"LayerString", "LayerDump", "LayerGoString", "VerifyChecksums", "Flows", "Metadata", "Data"}

// LazyOps are the accessors named by property C03.
var LazyOps = []string{"Layers", "Layer", "LayerClass", "Link", "Network", "Transport", "Application", "Error", "String", "Dump"}

// Gen draws a program of 1..n steps from ops.
func Gen(t *rapid.T, ops []string, n int) []Step {
	k := rapid.IntRange(1, n).Draw(t, "nsteps")
	prog := make([]Step, k)
	for i := range prog {
		s := Step{Op: rapid.SampledFrom(ops).Draw(t, "op")}
		switch s.Op {
		case "Layer":
			fl := registry.FirstLayers()
			if rapid.Bool().Draw(t, "common") {
				s.Arg = int(rapid.SampledFrom([]gopacket.LayerType{layers.LayerTypeEthernet, layers.LayerTypeIPv4, layers.LayerTypeIPv6, layers.LayerTypeTCP, layers.LayerTypeUDP, layers.LayerTypeDNS, gopacket.LayerTypePayload, gopacket.LayerTypeDecodeFailure, layers.LayerTypeDot1Q, layers.LayerTypeICMPv4}).Draw(t, "lt"))
			} else {
				s.Arg = int(fl[rapid.IntRange(0, len(fl)-1).Draw(t, "lt")])
			}
		case "LayerClass":
			s.Arg = rapid.IntRange(0, len(Classes)-1).Draw(t, "class")
		case "LayerString", "LayerDump", "LayerGoString":
			s.Arg = rapid.IntRange(0, 12).Draw(t, "layeridx")
		}
		prog[i] = s
	}
	return prog
}

func layerRes(l gopacket.Layer) string {
	if l == nil {
		return "<nil>"
	}
	return sig.Layer(l)
}

func isNil(v any) bool { return v == nil || fmt.Sprintf("%v", v) == "<nil>" }

// AttachPseudoHeaders lets transport layers verify their checksums (mutates the layers: do it before sharing).
func AttachPseudoHeaders(p gopacket.Packet) {
	nl := p.NetworkLayer()
	if nl == nil {
		return
	}
	for _, l := range p.Layers() {
		if x, ok := l.(interface {
			SetNetworkLayerForChecksum(gopacket.NetworkLayer) error
		}); ok {
			x.SetNetworkLayerForChecksum(nl)
		}
	}
}

// Exec runs one step and returns its canonical result. It never recovers: callers decide what a panic means.
func Exec(p gopacket.Packet, s Step) string {
	switch s.Op {
	case "Layers":
		return strings.Join(sig.Layers(p), "\n")
	case "Layer":
		return layerRes(p.Layer(gopacket.LayerType(s.Arg)))
	case "LayerClass":
		return layerRes(p.LayerClass(Classes[s.Arg%len(Classes)]))
	case "Link":
		if l := p.LinkLayer(); l != nil {
			return layerRes(l)
		}
		return "<nil>"
	case "Network":
		if l := p.NetworkLayer(); l != nil {
			return layerRes(l)
		}
		return "<nil>"
	case "Transport":
		if l := p.TransportLayer(); l != nil {
			return layerRes(l)
		}
		return "<nil>"
	case "Application":
		if l := p.ApplicationLayer(); l != nil {
			return layerRes(l) + fmt.Sprintf(" app-payload=%x", l.Payload())
		}
		return "<nil>"
	case "Error":
		if l := p.ErrorLayer(); l != nil {
			return layerRes(l) + " err=" + l.Error().Error()
		}
		return "<nil>"
	case "String":
		return stripStacks(p.String())
	case "Dump":
		return stripStacks(p.Dump())
	case "LayerString", "LayerDump", "LayerGoString":
		ls := p.Layers()
		if len(ls) == 0 {
			return "<none>"
		}
		l := ls[s.Arg%len(ls)]
		if df, ok := l.(*gopacket.DecodeFailure); ok {
			// renderings of a decode failure embed the goroutine stack captured by the recovered panic (as text or
			// as a byte array): call the renderer, but compare only the error text
			switch s.Op {
			case "LayerString":
				_ = gopacket.LayerString(l)
			case "LayerDump":
				_ = gopacket.LayerDump(l)
			default:
				_ = gopacket.LayerGoString(l)
			}
			return "DecodeFailure:" + df.Error().Error()
		}
		switch s.Op {
		case "LayerString":
			return stripStacks(gopacket.LayerString(l))
		case "LayerDump":
			return stripStacks(gopacket.LayerDump(l))
		default:
			return stripStacks(gopacket.LayerGoString(l))
		}
	case "VerifyChecksums":
		err, mm := p.VerifyChecksums()
		var sb strings.Builder
		fmt.Fprintf(&sb, "err=%v;", err)
		for _, m := range mm {
			fmt.Fprintf(&sb, "%d:%v:%+v;", m.LayerIndex, m.Layer.LayerType(), m.ChecksumVerificationResult)
		}
		return sb.String()
	case "Flows":
		var sb strings.Builder
		if l := p.LinkLayer(); l != nil {
			fmt.Fprintf(&sb, "link=%v;", l.LinkFlow())
		}
		if l := p.NetworkLayer(); l != nil {
			fmt.Fprintf(&sb, "net=%v;", l.NetworkFlow())
		}
		if l := p.TransportLayer(); l != nil {
			fmt.Fprintf(&sb, "tr=%v;", l.TransportFlow())
		}
		return sb.String()
	case "Metadata":
		m := p.Metadata()
		return fmt.Sprintf("%v %d %d %d", m.Truncated, m.CaptureLength, m.Length, m.InterfaceIndex)
	case "Data":
		return fmt.Sprintf("%x", p.Data())
	}
	return "?"
}

// stripStacks removes the goroutine stack that a recovered decode panic stores in its DecodeFailure
// (addresses and goroutine ids differ between runs by design).
func stripStacks(s string) string {
	if i := strings.Index(s, "goroutine "); i >= 0 {
		s = s[:i] + "<stack>"
	}
	if strings.Contains(s, "(0x") {
		// %#v renderings print pointer values, e.g. err:(*errors.errorString)(0xc000123456)
		s = ptrRe.ReplaceAllString(s, "(ptr)")
	}
	return s
}

var ptrRe = regexp.MustCompile(`\(0x[0-9a-f]{6,}\)`)

// Run executes the whole program under recover. It returns the per-step results and, if a step panicked,
// a failure keyed (accessor name, innermost gopacket function).
func Run(p gopacket.Packet, prog []Step) (res []string, f *vh.Failure) {
	for i, s := range prog {
		var r string
		pv, stack := vh.Recover(func() { r = Exec(p, s) })
		if pv != nil {
			fn, where := vh.InnermostRepoFunc(stack)
			return res, vh.Failf("panic:"+s.Op+":"+fn, "accessor %s (step %d) panicked: %v at %s", s.Op, i, pv, where)
		}
		res = append(res, r)
	}
	return res, nil
}
