// Package vh is the shared core of the verification harness: evidence counters,
// known-finding classification, replay-file writing and the protocol spoken with
// the ./check driver (a JSON-lines results file).
package vh

import (
	"bufio"
	"encoding/binary"
	"encoding/json"
	"fmt"
	"hash/fnv"
	"os"
	"path/filepath"
	"runtime"
	"runtime/debug"
	"sort"
	"strconv"
	"strings"
	"sync"
	"testing"
	"time"
)

// Failure is a property violation found by running one case.
type Failure struct {
	Key string // narrowest stable identifier of the root cause (DESIGN.md §2.4)
	Msg string
}

func (f *Failure) Error() string { return f.Key + ": " + f.Msg }

// Failf builds a Failure.
func Failf(key, format string, a ...any) *Failure {
	return &Failure{Key: key, Msg: fmt.Sprintf(format, a...)}
}

// TB is the subset of testing.TB / rapid.T that Fail needs.
type TB interface {
	Fatalf(format string, args ...any)
	Logf(format string, args ...any)
}

type knownEntry struct {
	Key    string
	Replay string
	What   string
}

// Session collects evidence for one test process.
type Session struct {
	Prop string
	Tier string
	Seed int64

	mu            sync.Mutex
	evals         int64
	nontrivial    int64
	distinct      map[uint64]struct{}
	classes       map[string]int64
	samples       []any
	sampleSeen    int64
	excludedKnown map[string]int64
	extra         map[string]any
	known         map[string]knownEntry
	resultsPath   string
	replayDir     string
	failN         int
	testName      string
}

const maxDistinct = 4_000_000

// Scale multiplies case counts that tests control themselves (exhaustive depths etc.).
func Scale() int {
	if v, err := strconv.Atoi(os.Getenv("VERIF_SCALE")); err == nil && v > 0 {
		return v
	}
	return 1
}

// Thorough reports whether the thorough tier is running.
func Thorough() bool { return os.Getenv("VERIF_TIER") == "thorough" }

func root() string {
	if r := os.Getenv("VERIF_ROOT"); r != "" {
		return r
	}
	// tests run with cwd = /verif/harness/<pkg>
	wd, _ := os.Getwd()
	for d := wd; d != "/" && d != "."; d = filepath.Dir(d) {
		if _, err := os.Stat(filepath.Join(d, "properties.jsonl")); err == nil {
			return d
		}
	}
	return "/verif"
}

// Root returns the /verif directory.
func Root() string { return root() }

// RepoDir returns the gopacket tree under test.
func RepoDir() string {
	if r := os.Getenv("VERIF_REPO"); r != "" {
		return r
	}
	return "/repo"
}

// New creates the session for property prop.
func New(prop string) *Session {
	s := &Session{
		Prop:          prop,
		Tier:          os.Getenv("VERIF_TIER"),
		distinct:      map[uint64]struct{}{},
		classes:       map[string]int64{},
		excludedKnown: map[string]int64{},
		extra:         map[string]any{},
		known:         map[string]knownEntry{},
	}
	if s.Tier == "" {
		s.Tier = "quick"
	}
	s.Seed, _ = strconv.ParseInt(os.Getenv("VERIF_SEED"), 10, 64)
	s.resultsPath = os.Getenv("VERIF_RESULTS")
	s.replayDir = os.Getenv("VERIF_REPLAY_DIR")
	if s.replayDir == "" {
		s.replayDir = filepath.Join(root(), "replay", prop)
	}
	s.testName = os.Getenv("VERIF_JOB")
	s.loadKnown()
	return s
}

func (s *Session) loadKnown() {
	path := os.Getenv("VERIF_KNOWN")
	if path == "" {
		path = filepath.Join(root(), "known_findings.txt")
	}
	f, err := os.Open(path)
	if err != nil {
		return
	}
	defer f.Close()
	sc := bufio.NewScanner(f)
	sc.Buffer(make([]byte, 1<<20), 1<<20)
	for sc.Scan() {
		line := strings.TrimSpace(sc.Text())
		if !strings.HasPrefix(line, "open:") {
			continue
		}
		fields := strings.Fields(line[len("open:"):])
		var e knownEntry
		prop := ""
		rest := []string{}
		for _, f := range fields {
			switch {
			case strings.HasPrefix(f, "property=") && prop == "":
				prop = f[len("property="):]
			case strings.HasPrefix(f, "key=") && e.Key == "":
				e.Key = f[len("key="):]
			case strings.HasPrefix(f, "replay=") && e.Replay == "":
				e.Replay = f[len("replay="):]
			default:
				rest = append(rest, f)
			}
		}
		e.What = strings.Join(rest, " ")
		if prop == s.Prop && e.Key != "" {
			s.known[e.Key] = e
		}
	}
}

// IsKnown reports whether key is an open known finding of this property.
func (s *Session) IsKnown(key string) bool {
	_, ok := s.known[key]
	return ok
}

// KnownKeys lists the open keys (sorted).
func (s *Session) KnownKeys() []string {
	var ks []string
	for k := range s.known {
		ks = append(ks, k)
	}
	sort.Strings(ks)
	return ks
}

// Hash64 hashes a case descriptor.
func Hash64(parts ...any) uint64 {
	h := fnv.New64a()
	for _, p := range parts {
		switch v := p.(type) {
		case []byte:
			var l [8]byte
			binary.LittleEndian.PutUint64(l[:], uint64(len(v)))
			h.Write(l[:])
			h.Write(v)
		case string:
			var l [8]byte
			binary.LittleEndian.PutUint64(l[:], uint64(len(v)))
			h.Write(l[:])
			h.Write([]byte(v))
		default:
			fmt.Fprintf(h, "%v|", v)
		}
	}
	return h.Sum64()
}

// Note records one generated case. desc hashes the canonical case descriptor;
// nontrivial is the property's stated rule; classes feed the generator-health histogram.
func (s *Session) Note(desc uint64, nontrivial bool, classes ...string) {
	s.mu.Lock()
	defer s.mu.Unlock()
	s.evals++
	if nontrivial {
		s.nontrivial++
		if len(s.distinct) < maxDistinct {
			s.distinct[desc] = struct{}{}
		}
	}
	for _, c := range classes {
		s.classes[c]++
	}
}

// Class bumps a histogram bucket without counting a case.
func (s *Session) Class(c string, n int64) {
	s.mu.Lock()
	s.classes[c] += n
	s.mu.Unlock()
}

// Extra sets an additional coverage key (e.g. exhaustive sub-space size).
func (s *Session) Extra(k string, v any) {
	s.mu.Lock()
	s.extra[k] = v
	s.mu.Unlock()
}

// Sample offers a case for the samples list (first 3 + deterministic thinning up to 8).
func (s *Session) Sample(v any) {
	s.mu.Lock()
	defer s.mu.Unlock()
	s.sampleSeen++
	n := s.sampleSeen
	if len(s.samples) < 3 {
		s.samples = append(s.samples, v)
		return
	}
	// keep cases number 10, 100, 1000, ... (deterministic, no RNG of our own)
	if len(s.samples) < 8 {
		for p := int64(10); p <= n; p *= 10 {
			if n == p {
				s.samples = append(s.samples, v)
				return
			}
		}
	}
}

// WantSample tells whether Sample would keep the next offer (lets callers avoid building it).
func (s *Session) WantSample() bool {
	s.mu.Lock()
	defer s.mu.Unlock()
	n := s.sampleSeen + 1
	if len(s.samples) < 3 {
		return true
	}
	if len(s.samples) < 8 {
		for p := int64(10); p <= n; p *= 10 {
			if n == p {
				return true
			}
		}
	}
	return false
}

type resultLine struct {
	Type   string `json:"type"`
	Prop   string `json:"prop"`
	Key    string `json:"key,omitempty"`
	Replay string `json:"replay,omitempty"`
	Msg    string `json:"msg,omitempty"`
	What   string `json:"what,omitempty"`
	Job    string `json:"job,omitempty"`
}

func (s *Session) emit(r resultLine) {
	r.Prop = s.Prop
	r.Job = s.testName
	b, _ := json.Marshal(r)
	fmt.Printf("VERIF-RESULT %s\n", b)
	if s.resultsPath == "" {
		return
	}
	f, err := os.OpenFile(s.resultsPath, os.O_APPEND|os.O_CREATE|os.O_WRONLY, 0o644)
	if err != nil {
		return
	}
	f.Write(append(b, '\n'))
	f.Close()
}

// ReplayFile is the on-disk form of a case.
type ReplayFile struct {
	Prop string          `json:"prop"`
	Test string          `json:"test"`
	Key  string          `json:"key,omitempty"`
	Msg  string          `json:"msg,omitempty"`
	Case json.RawMessage `json:"case"`
}

func (s *Session) writeReplay(test string, c any, f *Failure) string {
	os.MkdirAll(s.replayDir, 0o755)
	cb, err := json.Marshal(c)
	if err != nil {
		cb, _ = json.Marshal(fmt.Sprintf("%+v", c))
	}
	rf := ReplayFile{Prop: s.Prop, Test: test, Key: f.Key, Msg: trunc(f.Msg, 4000), Case: cb}
	b, _ := json.MarshalIndent(rf, "", " ")
	name := fmt.Sprintf("%s-seed%d-%s.json", test, s.Seed, sanitize(f.Key))
	p := filepath.Join(s.replayDir, name)
	os.WriteFile(p, b, 0o644)
	return p
}

func sanitize(k string) string {
	var sb strings.Builder
	for _, r := range k {
		if r >= 'a' && r <= 'z' || r >= 'A' && r <= 'Z' || r >= '0' && r <= '9' || r == '-' || r == '_' || r == '.' {
			sb.WriteRune(r)
		} else {
			sb.WriteByte('_')
		}
		if sb.Len() > 80 {
			break
		}
	}
	return sb.String()
}

func trunc(s string, n int) string {
	if len(s) > n {
		return s[:n] + "…"
	}
	return s
}

// Current saves the case that is about to run to VERIF_CURRENT so that a crash of the whole process (a panic
// in a goroutine of the code under test, a fatal runtime error) can be attributed to it by the driver.
func (s *Session) Current(test string, c any) {
	path := os.Getenv("VERIF_CURRENT")
	if path == "" {
		return
	}
	cb, err := json.Marshal(c)
	if err != nil {
		return
	}
	b, _ := json.Marshal(ReplayFile{Prop: s.Prop, Test: test, Key: "crash", Case: cb})
	os.WriteFile(path, b, 0o644)
}

// Check handles the outcome of one case: nil → pass; open known finding → counted and
// passed; anything else → replay file written (overwritten while shrinking, so the last
// one is the minimal case) and the test fails.
func (s *Session) Check(t TB, test string, c any, f *Failure) {
	if f == nil {
		return
	}
	if s.IsKnown(f.Key) {
		s.mu.Lock()
		s.excludedKnown[f.Key]++
		s.mu.Unlock()
		return
	}
	if os.Getenv("VERIF_DISCOVER") != "" {
		// discovery campaign (never used by registered checks): record every distinct key with one replay file and go on
		s.mu.Lock()
		first := s.excludedKnown["DISCOVERED "+f.Key] == 0
		s.excludedKnown["DISCOVERED "+f.Key]++
		s.mu.Unlock()
		if first {
			s.writeReplay(test, c, f)
		}
		return
	}
	p := s.writeReplay(test, c, f)
	s.mu.Lock()
	s.failN++
	s.mu.Unlock()
	s.emit(resultLine{Type: "violation", Key: f.Key, Replay: p, Msg: trunc(f.Msg, 2000)})
	t.Fatalf("VIOLATION %s key=%s replay=%s: %s", s.Prop, f.Key, p, trunc(f.Msg, 2000))
}

// ReportKnownStillFails prints the KNOWN-FINDING line for an open entry whose replay still fails.
func (s *Session) ReportKnownStillFails(key string) {
	e := s.known[key]
	s.emit(resultLine{Type: "known", Key: key, What: e.What, Replay: e.Replay})
}

// KnownReplay returns the committed replay path of an open entry ("" if none).
func (s *Session) KnownReplay(key string) string {
	e := s.known[key]
	if e.Replay == "" {
		return ""
	}
	if filepath.IsAbs(e.Replay) {
		return e.Replay
	}
	return filepath.Join(root(), e.Replay)
}

// Info records a free-form note in the results file (not a violation).
func (s *Session) Info(msg string) { s.emit(resultLine{Type: "info", Msg: msg}) }

// Stats is what Finish writes for the driver.
type Stats struct {
	Prop          string           `json:"prop"`
	Job           string           `json:"job"`
	Evaluations   int64            `json:"evaluations"`
	Nontrivial    int64            `json:"nontrivial"`
	Distinct      int64            `json:"distinct_nontrivial"`
	Classes       map[string]int64 `json:"classes"`
	ExcludedKnown map[string]int64 `json:"excluded_known"`
	Samples       []any            `json:"samples"`
	Extra         map[string]any   `json:"extra"`
	Failures      int              `json:"failures"`
	HashFile      string           `json:"hash_file,omitempty"`
}

// Finish writes the stats file (VERIF_STATS) and the hashes of distinct non-trivial cases.
func (s *Session) Finish() {
	path := os.Getenv("VERIF_STATS")
	if path == "" {
		return
	}
	s.mu.Lock()
	defer s.mu.Unlock()
	st := Stats{Prop: s.Prop, Job: s.testName, Evaluations: s.evals, Nontrivial: s.nontrivial,
		Distinct: int64(len(s.distinct)), Classes: s.classes, ExcludedKnown: s.excludedKnown,
		Samples: s.samples, Extra: s.extra, Failures: s.failN}
	hf := path + ".hashes"
	if f, err := os.Create(hf); err == nil {
		w := bufio.NewWriter(f)
		var b [8]byte
		for h := range s.distinct {
			binary.LittleEndian.PutUint64(b[:], h)
			w.Write(b[:])
		}
		w.Flush()
		f.Close()
		st.HashFile = hf
	}
	b, _ := json.Marshal(st)
	os.WriteFile(path, b, 0o644)
}

// Main runs the tests and writes stats.
func Main(m *testing.M, s *Session) {
	code := m.Run()
	s.Finish()
	os.Exit(code)
}

// LoadReplay reads a replay file and unmarshals its case into c.
func LoadReplay(path string, c any) (*ReplayFile, error) {
	b, err := os.ReadFile(path)
	if err != nil {
		return nil, err
	}
	var rf ReplayFile
	if err := json.Unmarshal(b, &rf); err != nil {
		return nil, err
	}
	if err := json.Unmarshal(rf.Case, c); err != nil {
		return nil, fmt.Errorf("%s: case: %w", path, err)
	}
	return &rf, nil
}

// ReplayPath is the file given with --replay ("" if none).
func ReplayPath() string { return os.Getenv("VERIF_REPLAY") }

// RegressFiles lists committed regression cases of the property for one test name.
func (s *Session) RegressFiles() []string {
	m, _ := filepath.Glob(filepath.Join(root(), "regress", s.Prop, "*.json"))
	sort.Strings(m)
	return m
}

// Regress runs the committed regression cases and --replay file through run.
// run returns the failure of the case in path whose ReplayFile.Test equals one the caller handles
// (it should return handled=false for files of other tests).
// Open known findings that still fail with their listed key produce a KNOWN-FINDING line;
// everything else that fails is a violation.
func (s *Session) Regress(t *testing.T, run func(rf *ReplayFile) (handled bool, f *Failure)) {
	files := s.RegressFiles()
	if p := ReplayPath(); p != "" {
		files = []string{p}
	}
	knownByReplay := map[string]string{}
	for k := range s.known {
		if p := s.KnownReplay(k); p != "" {
			knownByReplay[p] = k
		}
	}
	n := 0
	for _, path := range files {
		b, err := os.ReadFile(path)
		if err != nil {
			t.Fatalf("regress: %v", err)
		}
		var rf ReplayFile
		if err := json.Unmarshal(b, &rf); err != nil {
			t.Fatalf("regress %s: %v", path, err)
		}
		handled, f := run(&rf)
		if !handled {
			continue
		}
		n++
		wantKey, isKnown := knownByReplay[path]
		switch {
		case f == nil:
			// passes: fixed entries and mutant kills must pass; an open entry that no longer fails prints nothing
		case isKnown && f.Key == wantKey, s.IsKnown(f.Key):
			if isKnown && f.Key == wantKey {
				s.ReportKnownStillFails(wantKey)
			} else {
				s.mu.Lock()
				s.excludedKnown[f.Key]++
				s.mu.Unlock()
			}
		default:
			s.mu.Lock()
			s.failN++
			s.mu.Unlock()
			s.emit(resultLine{Type: "violation", Key: f.Key, Replay: path, Msg: trunc(f.Msg, 2000)})
			t.Errorf("VIOLATION %s key=%s replay=%s: %s", s.Prop, f.Key, path, trunc(f.Msg, 2000))
		}
	}
	s.Class("regress-files-run", int64(n))
}

// Recover runs fn and converts a panic into (value, stack).
func Recover(fn func()) (pv any, stack string) {
	defer func() {
		if r := recover(); r != nil {
			pv = r
			stack = string(debug.Stack())
		}
	}()
	fn()
	return nil, ""
}

// InnermostRepoFunc parses a debug.Stack() dump and returns the innermost frame whose function
// lives in the gopacket module (function name without arguments, and "file:line").
func InnermostRepoFunc(stack string) (fn string, where string) {
	lines := strings.Split(stack, "\n")
	seenPanic := false
	for i := 0; i+1 < len(lines); i++ {
		l := lines[i]
		if strings.HasPrefix(l, "panic(") || strings.HasPrefix(l, "runtime.panic") || strings.HasPrefix(l, "runtime.goPanic") {
			seenPanic = true
			continue
		}
		if !seenPanic {
			continue
		}
		if strings.HasPrefix(l, "github.com/gopacket/gopacket") && !strings.HasPrefix(l, "\t") {
			name := l
			if k := strings.LastIndex(name, "("); k > 0 {
				name = name[:k]
			}
			name = strings.TrimPrefix(name, "github.com/gopacket/gopacket")
			name = strings.TrimPrefix(name, "/")
			name = strings.TrimPrefix(name, ".")
			w := strings.TrimSpace(lines[i+1])
			if k := strings.Index(w, " +0x"); k > 0 {
				w = w[:k]
			}
			w = strings.TrimPrefix(w, RepoDir()+"/")
			return name, w
		}
	}
	return "unknown", ""
}

// Shard returns (index, count) from VERIF_SHARD="i/n" (default 0/1).
func Shard() (int, int) {
	var i, n int
	if _, err := fmt.Sscanf(os.Getenv("VERIF_SHARD"), "%d/%d", &i, &n); err == nil && n > 0 && i >= 0 && i < n {
		return i, n
	}
	return 0, 1
}

// overloaded tells whether the 1-minute load average exceeds the number of CPUs.
func overloaded() bool {
	b, err := os.ReadFile("/proc/loadavg")
	if err != nil {
		return false
	}
	var l1 float64
	if _, err := fmt.Sscanf(string(b), "%f", &l1); err != nil {
		return false
	}
	return l1 > float64(runtime.NumCPU())
}

// Guard runs fn (one case) under a watchdog: if it has not returned after limit, the case is saved as a
// replay file with key "hang:<label>", a "hang" result is emitted and the process exits with code 3.
// The driver re-runs that replay file alone and reports a violation only if it hangs again (DESIGN.md §2.5).
func (s *Session) Guard(test, label string, c any, limit time.Duration, fn func()) {
	done := make(chan struct{})
	if Thorough() {
		limit *= 2 // 16 shards and long cases share the machine
	}
	go func() {
		t := time.NewTimer(limit)
		defer t.Stop()
		select {
		case <-done:
			return
		case <-t.C:
		}
		// The limit is wall time. If the machine is oversubscribed the case may merely be starved: grant one
		// extension of twice the limit before calling it a hang (a real hang is still caught, just later, and is
		// re-confirmed by the driver on an otherwise idle process anyway).
		if overloaded() {
			t2 := time.NewTimer(2 * limit)
			defer t2.Stop()
			select {
			case <-done:
				return
			case <-t2.C:
			}
		}
		{
			f := &Failure{Key: "hang:" + label, Msg: fmt.Sprintf("case did not finish within %v", limit)}
			if s.IsKnown(f.Key) {
				s.emit(resultLine{Type: "info", Msg: "known hang " + f.Key})
			} else {
				p := s.writeReplay(test, c, f)
				s.emit(resultLine{Type: "hang", Key: f.Key, Replay: p, Msg: f.Msg})
			}
			s.Finish()
			os.Exit(3)
		}
	}()
	fn()
	close(done)
}
