// Package tcpm holds the TCP workload generator and the reference half-connection model shared by
// the tcpassembly and reassembly checks (C09, C10, C11, C12). It imports neither assembler package
// (they register the same command-line flags and cannot be linked into one binary).
package tcpm

import (
	"fmt"
	"sort"

	"verifharness/internal/vh"
)

// Seg is one TCP segment of a generated workload. Off is the stream offset of its first payload
// byte (stream byte i of a direction has sequence number ISN+1+i).
type Seg struct {
	Conn int  `json:"c"`
	Dir  int  `json:"d"` // 0 = client->server (the side that sends the first SYN), 1 = reverse
	Off  int  `json:"o"`
	Len  int  `json:"l"`
	SYN  bool `json:"syn,omitempty"`
	FIN  bool `json:"fin,omitempty"`
	RST  bool `json:"rst,omitempty"`
	Inc  int  `json:"inc,omitempty"` // connection incarnation (fresh ports), used by C11/C12 re-opens
}

// Op is one API call.
type Op struct {
	K   string `json:"k"` // seg | flushOlder | flushOpts | flushAll
	Seg *Seg   `json:"s,omitempty"`
	Ts  int64  `json:"ts"`           // timestamp of the packet / "now" of the flush (seconds)
	T   int64  `json:"t,omitempty"`  // flush cut-off (absolute seconds)
	TC  int64  `json:"tc,omitempty"` // close cut-off for flushOpts (reassembly); CloseAll!=0 for tcpassembly
	A   int    `json:"a,omitempty"`  // assembler index (C12)
}

// ConnSpec describes one connection (4-tuple) and both of its byte streams.
type ConnSpec struct {
	ISN  [2]uint32 `json:"isn"`
	Len  [2]int    `json:"len"`
	Salt byte      `json:"salt"`
}

// Case is the replayable unit for all assembler properties.
type Case struct {
	Conns      []ConnSpec `json:"conns"`
	Ops        []Op       `json:"ops"`
	MaxPerConn int        `json:"max_per_conn"`
	MaxTotal   int        `json:"max_total"`
	// reassembly only: per-stream pre-drawn decisions, indexed by the stream's own delivery counter
	Keep          []int  `json:"keep,omitempty"`     // -1 none, else permille of the delivered length to keep from
	Complete      []bool `json:"complete,omitempty"` // answers of ReassemblyComplete per stream creation index (default true)
	FinalFlushAll bool   `json:"final_flush_all"`
}

// Content returns stream bytes [off, off+n) of (conn, dir, incarnation): position dependent, so any misplaced byte shows.
func Content(c *ConnSpec, dir, inc, off, n int) []byte {
	b := make([]byte, n)
	for i := range b {
		p := off + i
		b[i] = byte(p*31+(p>>8)*17+(p>>16)*7) ^ c.Salt ^ byte(dir*0x5b) ^ byte(inc*0x33)
	}
	return b
}

// Seq returns the TCP sequence number of a segment.
func (c *Case) Seq(s *Seg) uint32 {
	isn := c.Conns[s.Conn].ISN[s.Dir] + uint32(s.Inc)*7919
	if s.SYN {
		return isn
	}
	return isn + 1 + uint32(s.Off)
}

// Payload returns the segment's bytes.
func (c *Case) Payload(s *Seg) []byte {
	return Content(&c.Conns[s.Conn], s.Dir, s.Inc, s.Off, s.Len)
}

// Ports returns the (src,dst) ports used by a segment's connection incarnation, from the client's view.
func Ports(conn, inc int) (uint16, uint16) {
	return uint16(10000 + conn*64 + inc), uint16(80 + conn)
}

// ---------------- reference model ----------------

type rng struct {
	a, b int
	ts   int64
}

// Half is one incarnation of one direction of a connection.
type Half struct {
	Conn, Dir, Inc    int
	arrived           []rng
	marks             []rng // zero-length FIN/RST segments (queue entries without data)
	synSeen           bool
	endAt             []int // stream offsets at which a FIN/RST-bearing segment ends (arrived)
	rstSeen           bool
	pos               int    // next expected stream offset
	started           bool   // first delivery happened (position known)
	skipped           bool   // some skip happened (position no longer equals bytes delivered)
	Closed            bool   // half closed (no further deliveries expected)
	EndSeen           bool   // a delivery carried the End flag
	Gone              bool   // removed from the pool (completion callback seen)
	bound             bool   // a stream object is attached
	kept              []byte // reassembly: bytes the stream asked to keep at the last delivery
	keptValid         bool
	deliveries        int
	bytesOut          int
	Completions       int
	dataAfterComplete bool
	// stats
	synPayloadLate                                                                                      bool
	synArrived                                                                                          bool
	finEnds                                                                                             []int
	sawOOO, sawOverlap, crossedWrap, crossedQuarter, multiPage, synLate, flushGap, limitHit, keepInside bool
}

// Delivery is one hand-over of bytes to a stream, as the adapter observed it.
type Delivery struct {
	Skip     int    // -1 unknown
	Saved    []byte // reassembly: bytes presented again in front (nil for tcpassembly)
	New      []byte
	Start    bool
	End      bool
	KeepFrom int // reassembly: offset into Saved+New the stream asks to keep from; -1 none
}

type hk struct{ conn, dir, inc int }

// Model checks every delivery and the after-call invariants.
type Model struct {
	C              *Case
	Kind           string // "tcpassembly" | "reassembly"
	halves         map[hk]*Half
	order          []*Half
	inFlush        bool
	inCall         bool
	limits         bool
	fail           *vh.Failure
	curOp          int
	SynPayloadLate bool // some SYN carrying payload arrived after its half's position was fixed
	Concurrent     bool // several assemblers / a concurrent flusher: a flush may be in progress at any time
}

// NewModel creates the model for a case.
func NewModel(c *Case, kind string) *Model {
	return &Model{C: c, Kind: kind, halves: map[hk]*Half{}, limits: c.MaxPerConn > 0 || c.MaxTotal > 0}
}

func (m *Model) failf(key, format string, a ...any) {
	if m.fail == nil {
		m.fail = vh.Failf(key, "op %d: "+format, append([]any{m.curOp}, a...)...)
	}
}

// Failure returns the first recorded violation.
func (m *Model) Failure() *vh.Failure { return m.fail }

// Half returns (creating if needed) the model half for (conn, dir, inc).
func (m *Model) Half(conn, dir, inc int) *Half {
	k := hk{conn, dir, inc}
	h := m.halves[k]
	if h == nil {
		h = &Half{Conn: conn, Dir: dir, Inc: inc}
		m.halves[k] = h
		m.order = append(m.order, h)
	}
	return h
}

// Halves lists all model halves in creation order.
func (m *Model) Halves() []*Half { return m.order }

// BeginOp is called before the API call of op i.
func (m *Model) BeginOp(i int, op *Op) {
	m.curOp = i
	m.inCall = true
	m.inFlush = op.K != "seg"
}

// Arrive records that a segment is about to be handed to the assembler. attributed tells whether the
// half is open for it (the adapter decides from the lifecycle it observed: closed halves ignore traffic).
func (m *Model) Arrive(s *Seg, ts int64) {
	h := m.Half(s.Conn, s.Dir, s.Inc)
	if h.Closed || h.Gone {
		return // traffic after the end of the stream is not this incarnation's data
	}
	if m.Kind == "tcpassembly" && !s.SYN && s.Len == 0 && !h.bound {
		return // a bare FIN/RST for a connection the assembler does not know is ignored by design
	}
	if s.SYN && s.Len > 0 && h.started {
		// known finding: payload on a SYN that arrives after the position is already fixed is placed one byte early
		h.synPayloadLate = true
		m.SynPayloadLate = true
	}
	if s.SYN {
		h.synArrived = true
		if h.started && !h.synSeen {
			// SYN after the position was fixed by a flush: the stream's start was never seen
		} else {
			if len(h.arrived) > 0 && !h.synSeen {
				h.synLate = true
			}
			h.synSeen = true
		}
	}
	if s.Len > 0 {
		a, b := s.Off, s.Off+s.Len
		for _, r := range h.arrived {
			if a < r.b && r.a < b {
				h.sawOverlap = true
			}
			if b <= r.a {
				h.sawOOO = true
			}
		}
		h.arrived = append(h.arrived, rng{a, b, ts})
		if s.Len > 1900 {
			h.multiPage = true
		}
		isn := uint64(m.C.Conns[s.Conn].ISN[s.Dir]) + uint64(s.Inc)*7919
		lo, hi := isn+1+uint64(a), isn+1+uint64(b)
		if lo < 1<<32 && hi >= 1<<32 {
			h.crossedWrap = true
		}
		for q := uint64(1); q <= 5; q++ {
			if lo < q<<30 && hi >= q<<30 {
				h.crossedQuarter = true
			}
		}
	}
	if (s.FIN || s.RST) && s.Len == 0 && m.Kind == "tcpassembly" { // reassembly never queues empty segments
		h.marks = append(h.marks, rng{s.Off, s.Off, ts}) // an empty FIN/RST still occupies a queue entry
	}
	if s.FIN {
		h.finEnds = append(h.finEnds, s.Off+s.Len)
	}
	if s.FIN || s.RST {
		h.endAt = append(h.endAt, s.Off+s.Len)
		if s.RST {
			h.rstSeen = true
		}
	}
}

func (h *Half) name() string { return fmt.Sprintf("conn %d dir %d inc %d", h.Conn, h.Dir, h.Inc) }

// Deliver checks one delivery to half h (oracle clauses 1, 3, 4).
func (m *Model) Deliver(h *Half, d Delivery) {
	cs := &m.C.Conns[h.Conn]
	if h.Completions > 0 {
		h.dataAfterComplete = true
		m.failf("data-after-completion", "%s: data delivered after the completion callback", h.name())
		return
	}
	if h.Closed {
		m.failf("data-after-end", "%s: delivery after End was delivered", h.name())
		return
	}
	h.deliveries++
	inForced := m.inFlush || m.limits || m.Concurrent
	// --- kept bytes (reassembly) ---
	if m.Kind == "reassembly" {
		if len(d.Saved) > 0 {
			if !h.keptValid || string(d.Saved) != string(h.kept) {
				m.failf("kept-bytes-altered", "%s: %d saved bytes presented, but the stream kept %d bytes (valid=%v); first difference at %d", h.name(), len(d.Saved), len(h.kept), h.keptValid, firstDiff(d.Saved, h.kept))
				return
			}
		} else if h.keptValid && len(h.kept) > 0 && d.Skip == 0 {
			m.failf("kept-bytes-lost", "%s: stream kept %d bytes at its previous delivery, no gap intervened, but none were presented again", h.name(), len(h.kept))
			return
		}
	}
	switch {
	case d.Skip < 0:
		if h.started || h.synSeen && m.Kind == "tcpassembly" {
			m.failf("skip-unknown-after-start", "%s: skip reported as unknown (-1) although the stream's start was seen / position known", h.name())
			return
		}
		if !inForced {
			m.failf("delivery-before-start", "%s: data delivered before the start of the stream outside a flush/limit", h.name())
			return
		}
		// position of the first released byte: the lowest arrived offset
		lo := -1
		for _, r := range h.arrived {
			if lo < 0 || r.a < lo {
				lo = r.a
			}
		}
		if lo < 0 {
			lo = 0
		}
		if len(d.New) == 0 {
			// an empty release (e.g. a queued bare FIN): position stays unknown until data comes; keep lowest
		}
		h.pos = lo
		h.skipped = true
		h.flushGap = true
	case d.Skip > 0:
		if !h.started && !h.synSeen {
			m.failf("skip-before-start", "%s: numeric skip %d reported before the start was seen", h.name(), d.Skip)
			return
		}
		if !inForced {
			m.failf("skip-outside-flush", "%s: skip of %d bytes announced outside a flush call and without a buffer limit", h.name(), d.Skip)
			return
		}
		for _, r := range h.arrived {
			if r.a < h.pos+d.Skip && r.b > h.pos {
				m.failf("skipped-arrived-bytes", "%s: skip of %d from offset %d passes over arrived bytes [%d,%d)", h.name(), d.Skip, h.pos, r.a, r.b)
				return
			}
		}
		h.pos += d.Skip
		h.skipped = true
		if m.inFlush {
			h.flushGap = true
		} else {
			h.limitHit = true
		}
	default:
		if !h.started && !h.synSeen {
			m.failf("delivery-before-start", "%s: data delivered with skip 0 before the stream's start was seen", h.name())
			return
		}
	}
	h.started = true
	n := len(d.New)
	if h.pos+n > cs.Len[h.Dir] {
		m.failf("bytes-invented", "%s: delivery of %d bytes at offset %d exceeds the %d-byte stream", h.name(), n, h.pos, cs.Len[h.Dir])
		return
	}
	want := Content(cs, h.Dir, h.Inc, h.pos, n)
	if string(want) != string(d.New) {
		k := firstDiff(want, d.New)
		m.failf("bytes-wrong", "%s: delivered bytes differ from the sender's stream at offset %d (+%d): got %#x want %#x (delivery of %d bytes, skip %d)", h.name(), h.pos, k, d.New[k], want[k], n, d.Skip)
		return
	}
	// every delivered byte must have arrived
	if n > 0 && !m.covered(h, h.pos, h.pos+n) {
		m.failf("bytes-not-arrived", "%s: delivered [%d,%d) includes bytes that never arrived", h.name(), h.pos, h.pos+n)
		return
	}
	h.pos += n
	h.bytesOut += n
	if d.Start && !h.synArrived {
		m.failf("start-flag", "%s: Start flagged but no SYN arrived", h.name())
		return
	}
	if d.End {
		ok := false
		for _, e := range h.endAt {
			if e == h.pos || h.rstSeen {
				ok = true
			}
		}
		if !ok {
			m.failf("end-flag", "%s: End flagged at offset %d but no FIN/RST segment ends there (ends: %v)", h.name(), h.pos, h.endAt)
			return
		}
		h.EndSeen = true
		if m.Kind == "reassembly" {
			// reassembly closes the half on End; tcpassembly may hand over further (contiguous) queue
			// entries in the same batch and closes at the completion callback
			h.Closed = true
		}
	}
	if m.Kind == "reassembly" {
		all := append(append([]byte(nil), d.Saved...), d.New...)
		if d.KeepFrom >= 0 && d.KeepFrom < len(all) {
			h.kept = all[d.KeepFrom:]
			h.keptValid = true
			if d.KeepFrom > len(d.Saved) {
				h.keepInside = true
			}
		} else {
			h.kept, h.keptValid = nil, true
		}
	}
}

func (m *Model) covered(h *Half, a, b int) bool {
	rs := append([]rng(nil), h.arrived...)
	sort.Slice(rs, func(i, j int) bool { return rs[i].a < rs[j].a })
	p := a
	for _, r := range rs {
		if r.a > p {
			break
		}
		if r.b > p {
			p = r.b
		}
		if p >= b {
			return true
		}
	}
	return p >= b
}

func firstDiff(a, b []byte) int {
	n := min(len(a), len(b))
	for i := 0; i < n; i++ {
		if a[i] != b[i] {
			return i
		}
	}
	return n
}

// Complete records the completion callback for half h.
func (m *Model) Complete(h *Half) {
	h.Completions++
	h.Closed = true
	h.Gone = true
	if h.Completions > 1 {
		m.failf("completed-twice", "%s: completion callback ran %d times", h.name(), h.Completions)
	}
}

// CompleteConn records the completion callback of a reassembly stream for one of its halves. removed tells
// whether the stream accepted removal from the pool.
func (m *Model) CompleteConn(h *Half, removed bool) {
	h.Completions++
	h.Closed = true
	if removed {
		h.Gone = true
	}
	if h.Completions > 1 {
		m.failf("completed-twice", "%s: completion callback ran %d times", h.name(), h.Completions)
	}
}

// FinConsumed tells whether an arrived FIN segment ending exactly at the current position has been passed
// (everything up to and including it was delivered) without any delivery carrying the End flag.
func (h *Half) FinConsumed() bool {
	if !h.started || h.EndSeen {
		return false
	}
	for _, e := range h.finEnds {
		if e == h.pos {
			return true
		}
	}
	return false
}

// Started tells whether the half's position is known.
func (h *Half) Started() bool { return h.started }

// EndOp checks the after-call invariant (clause 2): nothing that has arrived in order is withheld.
func (m *Model) EndOp() {
	m.inCall = false
	for _, h := range m.order {
		if h.Closed || h.Gone || !h.bound {
			continue
		}
		if !h.started {
			if h.synSeen {
				// SYN processed: position is 0 even if nothing was delivered yet (tcpassembly delivers the SYN itself)
				for _, r := range h.arrived {
					if r.a <= 0 && r.b > 0 {
						m.failf("withheld", "%s: start seen and bytes [%d,%d) arrived but nothing was delivered", h.name(), r.a, r.b)
						return
					}
				}
			}
			continue
		}
		for _, r := range h.arrived {
			if r.a <= h.pos && h.pos < r.b {
				m.failf("withheld", "%s: byte at offset %d arrived (segment [%d,%d)) and everything before it was delivered or skipped, but it is withheld", h.name(), h.pos, r.a, r.b)
				return
			}
		}
		if h.synSeen && !h.skipped {
			// position must equal the contiguous arrived prefix
			p := m.prefix(h)
			if h.pos != p {
				m.failf("prefix", "%s: delivered up to %d but the contiguous arrived prefix is %d", h.name(), h.pos, p)
				return
			}
		}
	}
}

func (m *Model) prefix(h *Half) int {
	rs := append([]rng(nil), h.arrived...)
	sort.Slice(rs, func(i, j int) bool { return rs[i].a < rs[j].a })
	p := 0
	for _, r := range rs {
		if r.a > p {
			break
		}
		if r.b > p {
			p = r.b
		}
	}
	return p
}

// Bind marks that a stream object now serves half h.
func (m *Model) Bind(h *Half) { h.bound = true }

// Bound tells whether a stream is attached.
func (h *Half) Bound() bool { return h.bound }

// Pos returns the model position (for adapters' own checks).
func (h *Half) Pos() int { return h.pos }

// AfterFlushAll checks clause 5: every arrived byte at or beyond the position was delivered, completion seen once.
func (m *Model) AfterFlushAll() {
	for _, h := range m.order {
		if !h.bound {
			if len(h.arrived) > 0 || h.synSeen {
				m.failf("no-stream", "%s: %d data segments arrived but no stream was ever created for them", h.name(), len(h.arrived))
				return
			}
			continue
		}
		if h.Completions != 1 {
			m.failf("completion-count", "%s: completion callback ran %d times by the final flush-all (want 1)", h.name(), h.Completions)
			return
		}
		// halves ended by FIN/RST may legitimately drop data queued beyond the end marker
		endedByFlag := false
		for range h.endAt {
			endedByFlag = true
		}
		if endedByFlag {
			continue
		}
		for _, r := range h.arrived {
			if r.b > h.pos {
				m.failf("undelivered-at-end", "%s: after flush-all bytes [%d,%d) arrived but position is %d", h.name(), r.a, r.b, h.pos)
				return
			}
		}
	}
}

// Classes returns the histogram classes of the case after the run, and whether it was non-trivial.
func (m *Model) Classes() (bool, []string) {
	set := map[string]bool{}
	nt := false
	for _, h := range m.order {
		if h.sawOOO {
			set["out-of-order"] = true
		}
		if h.sawOverlap {
			set["overlap-or-duplicate"] = true
		}
		if h.sawOOO && h.sawOverlap {
			nt = true
		}
		for k, v := range map[string]bool{"crosses-2^32": h.crossedWrap, "crosses-quarter": h.crossedQuarter, "multi-page-segment": h.multiPage,
			"syn-late": h.synLate, "flush-with-gap": h.flushGap, "limit-hit": h.limitHit, "keep-inside": h.keepInside} {
			if v {
				set[k] = true
			}
		}
	}
	var out []string
	for k := range set {
		out = append(out, k)
	}
	sort.Strings(out)
	return nt, out
}

// FirstWithheld returns the offset of the first queue entry the half is waiting in front of (the lowest
// arrived, undelivered data byte or empty FIN/RST marker at or beyond the position) and the newest
// timestamp among the segments covering it.
func (h *Half) FirstWithheld() (off int, newest int64, ok bool) {
	off = -1
	for _, r := range h.arrived {
		a := r.a
		if a < h.pos {
			a = h.pos
		}
		if a >= r.b {
			continue
		}
		if off < 0 || a < off {
			off = a
		}
	}
	for _, r := range h.marks {
		if r.a >= h.pos && (off < 0 || r.a < off) {
			off = r.a
		}
	}
	if off < 0 {
		return 0, 0, false
	}
	first := true
	upd := func(ts int64) {
		if first || ts > newest {
			newest = ts
			first = false
		}
	}
	for _, r := range h.arrived {
		if r.a <= off && off < r.b {
			upd(r.ts)
		}
	}
	for _, r := range h.marks {
		if r.a == off {
			upd(r.ts)
		}
	}
	return off, newest, true
}
