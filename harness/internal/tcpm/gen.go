package tcpm

import (
	"pgregory.net/rapid"
)

// GenOpts tunes the workload generator.
type GenOpts struct {
	MaxConns        int
	MaxStream       int  // max stream length
	MaxSegs         int  // max data segments per direction
	BothDirs        bool // generate the reverse direction too
	Limits          bool // draw page limits
	Keep            bool // draw KeepFrom tables (reassembly)
	MidFlush        bool // interleave flush calls
	Reopen          bool // re-open connections after close with fresh ports (C11/C12)
	SynPayload      bool // allow payload on the SYN (TCP fast open)
	NoFinalFlushAll bool
}

func genISN(t *rapid.T, streamLen int) uint32 {
	switch rapid.IntRange(0, 5).Draw(t, "isnkind") {
	case 0: // just below 2^32 so the stream crosses the wrap
		return uint32(0x100000000 - uint64(rapid.IntRange(0, streamLen+2).Draw(t, "belowwrap")))
	case 1:
		return uint32(rapid.IntRange(0, 10).Draw(t, "small"))
	case 2: // around a quarter boundary
		q := uint64(rapid.IntRange(1, 3).Draw(t, "quarter")) << 30
		return uint32(q - uint64(rapid.IntRange(0, streamLen+2).Draw(t, "belowq")))
	case 3:
		return 0xffffffff - uint32(rapid.IntRange(0, 3).Draw(t, "top"))
	default:
		return rapid.Uint32().Draw(t, "isn")
	}
}

type item struct {
	seg Seg
	key int // ordering key (position in the send order), perturbed for reordering
}

// genHalf produces the arrival-ordered segment list of one direction of one incarnation.
func genHalf(t *rapid.T, conn, dir, inc, streamLen int, o GenOpts) []Seg {
	var segs []Seg
	// cover [0,L) with consecutive segments
	off := 0
	nmax := o.MaxSegs
	for off < streamLen && len(segs) < nmax {
		var l int
		switch rapid.IntRange(0, 7).Draw(t, "lenkind") {
		case 0:
			l = rapid.IntRange(1900, 4500).Draw(t, "seglen") // 2-3 pages
		case 1:
			l = rapid.SampledFrom([]int{1, 2, 1899, 1900, 1901, 3800}).Draw(t, "seglen")
		default:
			l = rapid.IntRange(1, 1460).Draw(t, "seglen")
		}
		if off+l > streamLen || len(segs) == nmax-1 {
			l = streamLen - off
		}
		segs = append(segs, Seg{Conn: conn, Dir: dir, Inc: inc, Off: off, Len: l})
		off += l
	}
	// retransmissions: random sub-ranges (overlapping / duplicates), always carrying the stream's bytes
	nre := rapid.IntRange(0, 4).Draw(t, "nretrans")
	base := len(segs)
	for i := 0; i < nre && streamLen > 0 && base > 0; i++ {
		switch rapid.IntRange(0, 2).Draw(t, "rekind") {
		case 0: // exact duplicate
			segs = append(segs, segs[rapid.IntRange(0, base-1).Draw(t, "dup")])
		default:
			a := rapid.IntRange(0, streamLen-1).Draw(t, "ra")
			l := rapid.IntRange(1, min(streamLen-a, 4500)).Draw(t, "rl")
			segs = append(segs, Seg{Conn: conn, Dir: dir, Inc: inc, Off: a, Len: l})
		}
	}
	// ordering: in-order keys with local displacement
	items := make([]item, len(segs))
	mode := rapid.IntRange(0, 3).Draw(t, "order")
	for i, s := range segs {
		k := i * 4
		if i >= base {
			k = rapid.IntRange(0, base*4+3).Draw(t, "rekey")
		}
		switch mode {
		case 0: // in order
		case 1: // small displacement
			k += rapid.IntRange(-6, 6).Draw(t, "jit")
		default:
			if rapid.IntRange(0, 3).Draw(t, "far") == 0 {
				k = rapid.IntRange(0, base*4+3).Draw(t, "anykey")
			} else {
				k += rapid.IntRange(-9, 9).Draw(t, "jit")
			}
		}
		items[i] = item{s, k}
	}
	// stable insertion sort by key
	for i := 1; i < len(items); i++ {
		for j := i; j > 0 && items[j].key < items[j-1].key; j-- {
			items[j], items[j-1] = items[j-1], items[j]
		}
	}
	out := make([]Seg, 0, len(items)+3)
	for _, it := range items {
		out = append(out, it.seg)
	}
	// SYN: first (90%) or late
	syn := Seg{Conn: conn, Dir: dir, Inc: inc, SYN: true}
	synpos := rapid.IntRange(0, 19).Draw(t, "synpos")
	if o.SynPayload && synpos > 1 && len(out) > 0 && out[0].Off == 0 && rapid.IntRange(0, 9).Draw(t, "synpayload") == 0 {
		// fold the first data segment into the SYN (TCP fast open). Only when the SYN is the first segment of
		// its half: a payload-bearing SYN arriving after the position is fixed is a known finding and is
		// excluded by construction (DESIGN.md §2.4 mechanism 2)
		syn.Len = out[0].Len
		out = out[1:]
	}
	switch synpos {
	case 0:
		at := rapid.IntRange(0, len(out)).Draw(t, "synat")
		out = append(out[:at], append([]Seg{syn}, out[at:]...)...)
	case 1: // never seen
	default:
		out = append([]Seg{syn}, out...)
	}
	if rapid.IntRange(0, 9).Draw(t, "synre") == 0 && syn.Len == 0 {
		at := rapid.IntRange(0, len(out)).Draw(t, "synreat")
		out = append(out[:at], append([]Seg{syn}, out[at:]...)...)
	}
	// end marker
	switch rapid.IntRange(0, 5).Draw(t, "endkind") {
	case 0: // none: ended by flush
	case 1: // RST somewhere
		e := Seg{Conn: conn, Dir: dir, Inc: inc, RST: true, Off: rapid.IntRange(0, streamLen).Draw(t, "rstoff")}
		at := rapid.IntRange(0, len(out)).Draw(t, "rstat")
		out = append(out[:at], append([]Seg{e}, out[at:]...)...)
	default: // FIN at the end of the stream, possibly carrying the tail, arriving late-ish
		e := Seg{Conn: conn, Dir: dir, Inc: inc, FIN: true, Off: streamLen}
		if streamLen > 0 && rapid.Bool().Draw(t, "finpayload") {
			l := rapid.IntRange(1, min(streamLen, 1460)).Draw(t, "finlen")
			e.Off, e.Len = streamLen-l, l
		}
		at := len(out) - rapid.IntRange(0, min(3, len(out))).Draw(t, "finback")
		out = append(out[:at], append([]Seg{e}, out[at:]...)...)
		if rapid.IntRange(0, 7).Draw(t, "finre") == 0 {
			out = append(out, e)
		}
	}
	return out
}

// Gen draws a whole case.
func Gen(t *rapid.T, o GenOpts) *Case {
	c := &Case{FinalFlushAll: !o.NoFinalFlushAll}
	nconn := rapid.IntRange(1, o.MaxConns).Draw(t, "nconns")
	var queues [][]Seg
	for ci := 0; ci < nconn; ci++ {
		cs := ConnSpec{Salt: byte(ci*29 + 7)}
		for d := 0; d < 2; d++ {
			switch rapid.IntRange(0, 5).Draw(t, "slenkind") {
			case 0:
				cs.Len[d] = rapid.IntRange(0, 40).Draw(t, "slen")
			case 1:
				cs.Len[d] = rapid.IntRange(1, o.MaxStream).Draw(t, "slen")
			default:
				cs.Len[d] = rapid.IntRange(1, min(o.MaxStream, 6000)).Draw(t, "slen")
			}
			cs.ISN[d] = genISN(t, cs.Len[d])
		}
		c.Conns = append(c.Conns, cs)
		incs := 1
		if o.Reopen {
			incs = rapid.IntRange(1, 3).Draw(t, "incarnations")
		}
		for inc := 0; inc < incs; inc++ {
			q := genHalf(t, ci, 0, inc, cs.Len[0], o)
			if o.BothDirs && rapid.IntRange(0, 3).Draw(t, "hasrev") > 0 {
				r := genHalf(t, ci, 1, inc, cs.Len[1], o)
				// merge the two directions, drawn interleaving
				var mq []Seg
				for len(q) > 0 || len(r) > 0 {
					if len(r) == 0 || len(q) > 0 && rapid.IntRange(0, 2).Draw(t, "dirpick") > 0 {
						mq, q = append(mq, q[0]), q[1:]
					} else {
						mq, r = append(mq, r[0]), r[1:]
					}
				}
				q = mq
			}
			queues = append(queues, q)
		}
	}
	if o.Limits && rapid.IntRange(0, 2).Draw(t, "haslimit") == 0 {
		c.MaxPerConn = rapid.SampledFrom([]int{0, 1, 2, 3, 5, 8}).Draw(t, "maxperconn")
		c.MaxTotal = rapid.SampledFrom([]int{0, 0, 1, 2, 4, 8, 16}).Draw(t, "maxtotal")
	}
	// interleave the per-connection queues; incarnations of one connection stay in order
	ts := int64(1000)
	for {
		var live []int
		seenConn := map[int]bool{}
		for i, q := range queues {
			if len(q) == 0 {
				continue
			}
			cn := q[0].Conn
			if seenConn[cn] {
				continue // a later incarnation waits for the earlier one
			}
			seenConn[cn] = true
			live = append(live, i)
		}
		if len(live) == 0 {
			break
		}
		qi := live[rapid.IntRange(0, len(live)-1).Draw(t, "pickq")]
		s := queues[qi][0]
		queues[qi] = queues[qi][1:]
		ts += int64(rapid.IntRange(0, 2).Draw(t, "dt"))
		c.Ops = append(c.Ops, Op{K: "seg", Seg: &s, Ts: ts})
		if o.MidFlush {
			switch rapid.IntRange(0, 24).Draw(t, "flush") {
			case 0:
				c.Ops = append(c.Ops, Op{K: "flushOlder", Ts: ts, T: ts - int64(rapid.IntRange(-1, 8).Draw(t, "age"))})
			case 1:
				cut := ts - int64(rapid.IntRange(-1, 8).Draw(t, "age"))
				tc := int64(0)
				if rapid.Bool().Draw(t, "hastc") {
					tc = ts - int64(rapid.IntRange(-1, 12).Draw(t, "tcage"))
				}
				c.Ops = append(c.Ops, Op{K: "flushOpts", Ts: ts, T: cut, TC: tc})
			case 2:
				if rapid.IntRange(0, 3).Draw(t, "midall") == 0 {
					c.Ops = append(c.Ops, Op{K: "flushAll", Ts: ts})
				}
			}
		}
	}
	if c.FinalFlushAll {
		c.Ops = append(c.Ops, Op{K: "flushAll", Ts: ts + 1})
	}
	if o.Keep {
		n := rapid.IntRange(0, 12).Draw(t, "nkeep")
		for i := 0; i < n; i++ {
			switch rapid.IntRange(0, 3).Draw(t, "keepkind") {
			case 0:
				c.Keep = append(c.Keep, -1)
			case 1:
				c.Keep = append(c.Keep, rapid.SampledFrom([]int{0, 1000}).Draw(t, "keepedge"))
			default:
				c.Keep = append(c.Keep, rapid.IntRange(0, 1000).Draw(t, "keep"))
			}
		}
	}
	return c
}
