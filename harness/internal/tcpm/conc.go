package tcpm

import "pgregory.net/rapid"

// ConcCase is the replayable unit of the shared-pool property (C12): a workload, its distribution over
// assemblers, the calls of a concurrent flusher and the schedule the controller follows.
type ConcCase struct {
	T        *Case    `json:"t"`
	NAsm     int      `json:"n_asm"`
	Assign   [][2]int `json:"assign"`          // Assign[conn][dir] = assembler feeding that direction in order; -1: packets of the direction are spread over assemblers
	Spread   []int    `json:"spread"`          // for spread directions: op k goes to assembler Spread[k%len] % NAsm
	Flushes  []Op     `json:"flushes"`         // calls of the flusher goroutine (none: no flusher)
	Schedule []int    `json:"schedule"`        // controller choices, each taken modulo the runnable set
	Tail     uint64   `json:"tail,omitempty"`  // 0: after the schedule the lowest runnable goroutine runs; else seed of a pseudo-random continuation
	Order    []int    `json:"order,omitempty"` // seeds for the order in which a flush walks the pool (hook H3)
}

// AsmOf returns the assembler that feeds operation k.
func (c *ConcCase) AsmOf(k int) int {
	s := c.T.Ops[k].Seg
	a := c.Assign[s.Conn][s.Dir]
	if a < 0 {
		if len(c.Spread) == 0 {
			return k % c.NAsm
		}
		return c.Spread[k%len(c.Spread)] % c.NAsm
	}
	return a
}

// Ordered tells whether the packets of (conn, dir) are fed in a fixed order by one assembler (the in-order
// guarantee applies only then).
func (c *ConcCase) Ordered(conn, dir int) bool { return c.Assign[conn][dir] >= 0 }

// Perm turns the k-th drawn order seed into a permutation of n elements (rotation plus optional reversal).
func (c *ConcCase) Perm(k, n int) []int {
	perm := make([]int, n)
	for i := range perm {
		perm[i] = i
	}
	if len(c.Order) > 0 && n > 1 {
		o := c.Order[k%len(c.Order)]
		rot := o % n
		perm = append(perm[rot:], perm[:rot]...)
		if o&1024 != 0 {
			for a, b := 0, n-1; a < b; a, b = a+1, b-1 {
				perm[a], perm[b] = perm[b], perm[a]
			}
		}
	}
	return perm
}

// GenConc draws a concurrent case. closeAllKinds lists the flusher operations of the package under test.
func GenConc(t *rapid.T, withTC bool) *ConcCase {
	o := GenOpts{MaxConns: 3, MaxStream: 4000, MaxSegs: 6, BothDirs: true, Reopen: true, NoFinalFlushAll: true}
	c := &ConcCase{T: Gen(t, o), NAsm: rapid.IntRange(2, 4).Draw(t, "nasm")}
	spread := false
	for range c.T.Conns {
		a := rapid.IntRange(0, c.NAsm-1).Draw(t, "asm0")
		b := a
		if rapid.IntRange(0, 3).Draw(t, "split") > 0 {
			b = (a + 1 + rapid.IntRange(0, c.NAsm-2).Draw(t, "other")) % c.NAsm // the two directions race on purpose
		}
		if rapid.IntRange(0, 7).Draw(t, "spread0") == 0 {
			a, spread = -1, true
		}
		if rapid.IntRange(0, 7).Draw(t, "spread1") == 0 {
			b, spread = -1, true
		}
		c.Assign = append(c.Assign, [2]int{a, b})
	}
	if spread {
		c.Spread = rapid.SliceOfN(rapid.IntRange(0, 3), 1, 8).Draw(t, "spreadseq")
	}
	if fk := rapid.IntRange(0, 3).Draw(t, "flusher"); fk > 0 {
		n := rapid.IntRange(1, 4).Draw(t, "nflush")
		for i := 0; i < n; i++ {
			cut := int64(1000 + rapid.IntRange(0, 40).Draw(t, "cut"))
			k := 2
			if fk > 1 {
				k = rapid.IntRange(0, 3).Draw(t, "fk")
			}
			switch k {
			case 0:
				c.Flushes = append(c.Flushes, Op{K: "flushOlder", T: cut})
			case 1:
				tc := int64(1)
				if withTC {
					tc = cut - int64(rapid.IntRange(0, 5).Draw(t, "tcd"))
				}
				c.Flushes = append(c.Flushes, Op{K: "flushOpts", T: cut, TC: tc})
			case 2: // flushes old data but closes nothing for idleness
				c.Flushes = append(c.Flushes, Op{K: "flushOpts", T: cut})
			default:
				c.Flushes = append(c.Flushes, Op{K: "flushAll"})
			}
		}
	}
	c.Schedule = rapid.SliceOfN(rapid.IntRange(0, 5), 0, 120).Draw(t, "schedule")
	if rapid.IntRange(0, 3).Draw(t, "tailmode") > 0 {
		c.Tail = uint64(rapid.IntRange(1, 1<<30).Draw(t, "tail"))
	}
	c.Order = rapid.SliceOfN(rapid.IntRange(0, 2047), 0, 4).Draw(t, "order")
	return c
}

// ExhaustiveScenarios are the fixed two-assembler workloads whose schedules are enumerated exhaustively.
func ExhaustiveScenarios() []*ConcCase {
	mk := func(segs []Seg, assign [][2]int, fl []Op) *ConcCase {
		c := &Case{Conns: []ConnSpec{{Len: [2]int{4, 4}, Salt: 3, ISN: [2]uint32{100, 0xfffffffe}}, {Len: [2]int{2, 2}, Salt: 9}}}
		for i := range segs {
			c.Ops = append(c.Ops, Op{K: "seg", Seg: &segs[i], Ts: 1000 + int64(i)})
		}
		return &ConcCase{T: c, NAsm: 2, Assign: assign, Flushes: fl}
	}
	return []*ConcCase{
		// first packets of the two directions race
		mk([]Seg{{SYN: true}, {Dir: 1, SYN: true}, {Off: 0, Len: 4}, {Dir: 1, Off: 0, Len: 4}}, [][2]int{{0, 1}, {0, 0}}, nil),
		// first packets of the same direction race (packets of one direction spread over both assemblers)
		mk([]Seg{{SYN: true}, {Off: 0, Len: 2}, {Off: 2, Len: 2}, {Dir: 1, SYN: true}}, [][2]int{{-1, 1}, {0, 0}}, nil),
		// close versus lookup: both directions end, the 4-tuple of the next incarnation takes the recycled entry
		mk([]Seg{{SYN: true}, {Off: 0, Len: 4, FIN: true}, {Dir: 1, SYN: true}, {Dir: 1, Off: 0, Len: 4, FIN: true}, {SYN: true, Inc: 1}, {Inc: 1, Off: 0, Len: 2}}, [][2]int{{0, 1}, {0, 0}}, nil),
		// flush versus assemble
		mk([]Seg{{SYN: true}, {Off: 2, Len: 2}, {Off: 0, Len: 2}, {Dir: 1, SYN: true}, {Dir: 1, Off: 1, Len: 3}}, [][2]int{{0, 1}, {0, 0}}, []Op{{K: "flushOlder", T: 1002}, {K: "flushAll"}}),
		// idle close and removal versus a late packet of the same 4-tuple and a new connection reusing the entry
		mk([]Seg{{SYN: true}, {Off: 0, Len: 2}, {Conn: 1, SYN: true}, {Off: 2, Len: 2}, {Conn: 1, Off: 0, Len: 2}}, [][2]int{{0, 0}, {1, 1}}, []Op{{K: "flushOlder", T: 1010}, {K: "flushOlder", T: 1010}}),
		// two connections, crossed assignment
		mk([]Seg{{SYN: true}, {Conn: 1, SYN: true}, {Off: 0, Len: 4}, {Conn: 1, Off: 0, Len: 2}, {Dir: 1, SYN: true}, {Conn: 1, Dir: 1, SYN: true}}, [][2]int{{0, 1}, {1, 0}}, []Op{{K: "flushOpts", T: 1001, TC: 1001}}),
	}
}
