// Package ref holds independent reference implementations used as oracles.
package ref

import "math/big"

// OnesSum16 returns the 16-bit one's-complement sum (RFC 1071, end-around carry) of the
// big-endian 16-bit words of the concatenation of parts; an odd trailing byte is padded with a
// zero byte on the right. Written with math/big on purpose: no accumulator width to get wrong.
func OnesSum16(parts ...[]byte) uint16 {
	sum := new(big.Int)
	var all []byte
	for _, p := range parts {
		all = append(all, p...)
	}
	if len(all)%2 == 1 {
		all = append(all, 0)
	}
	w := new(big.Int)
	for i := 0; i < len(all); i += 2 {
		w.SetUint64(uint64(all[i])<<8 | uint64(all[i+1]))
		sum.Add(sum, w)
	}
	return FoldBig(sum)
}

// FoldBig folds an arbitrary non-negative integer to 16 bits with end-around carry.
func FoldBig(sum *big.Int) uint16 {
	s := new(big.Int).Set(sum)
	mask := big.NewInt(0xffff)
	for s.BitLen() > 16 {
		hi := new(big.Int).Rsh(s, 16)
		lo := new(big.Int).And(s, mask)
		s = hi.Add(hi, lo)
	}
	return uint16(s.Uint64())
}

// Checksum is the Internet checksum: complement of OnesSum16.
func Checksum(parts ...[]byte) uint16 { return ^OnesSum16(parts...) }

// PseudoV4 builds the IPv4 pseudo-header.
func PseudoV4(src, dst []byte, proto byte, length int) []byte {
	b := append([]byte{}, src[:4]...)
	b = append(b, dst[:4]...)
	return append(b, 0, proto, byte(length>>8), byte(length))
}

// PseudoV6 builds the IPv6 pseudo-header (RFC 8200 §8.1).
func PseudoV6(src, dst []byte, next byte, length int) []byte {
	b := append([]byte{}, src[:16]...)
	b = append(b, dst[:16]...)
	return append(b, byte(length>>24), byte(length>>16), byte(length>>8), byte(length), 0, 0, 0, next)
}
