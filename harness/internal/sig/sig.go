// Package sig computes a canonical, identity-free text signature of packets and layers: LayerType,
// contents, payload and a reflective walk of all exported fields (DESIGN.md §2.2).
package sig

import (
	"encoding/hex"
	"fmt"
	"hash/fnv"
	"net"
	"reflect"
	"sort"
	"strings"
	"time"

	"github.com/gopacket/gopacket"
)

type walker struct {
	sb       strings.Builder
	visited  map[uintptr]bool
	depth    int
	skipBase bool
}

// Layer returns the signature of one layer.
func Layer(l gopacket.Layer) string {
	w := &walker{visited: map[uintptr]bool{}}
	w.layer(l)
	return w.sb.String()
}

// Packet returns the signature of all layers of a packet (forces full decoding) plus its metadata flags.
func Packet(p gopacket.Packet) string {
	w := &walker{visited: map[uintptr]bool{}}
	for i, l := range p.Layers() {
		fmt.Fprintf(&w.sb, "#%d ", i)
		w.layer(l)
		w.sb.WriteByte('\n')
	}
	fmt.Fprintf(&w.sb, "truncated=%v", p.Metadata().Truncated)
	return w.sb.String()
}

// Layers returns one signature per layer.
func Layers(p gopacket.Packet) []string {
	var out []string
	for _, l := range p.Layers() {
		out = append(out, Layer(l))
	}
	return out
}

func (w *walker) layer(l gopacket.Layer) {
	if l == nil || (reflect.ValueOf(l).Kind() == reflect.Ptr && reflect.ValueOf(l).IsNil()) {
		w.sb.WriteString("<nil layer>")
		return
	}
	fmt.Fprintf(&w.sb, "%v{", l.LayerType())
	if df, ok := l.(*gopacket.DecodeFailure); ok {
		// the captured stack holds addresses and goroutine ids: only the error text and data count
		fmt.Fprintf(&w.sb, "err=%q data=%s}", df.Error().Error(), hex.EncodeToString(df.LayerContents()))
		return
	}
	fmt.Fprintf(&w.sb, "contents=%s payload=%s ", short(l.LayerContents()), short(l.LayerPayload()))
	if x, ok := l.(gopacket.LinkLayer); ok {
		fmt.Fprintf(&w.sb, "linkflow=%v ", safeFlow(x.LinkFlow))
	}
	if x, ok := l.(gopacket.NetworkLayer); ok {
		fmt.Fprintf(&w.sb, "netflow=%v ", safeFlow(x.NetworkFlow))
	}
	if x, ok := l.(gopacket.TransportLayer); ok {
		fmt.Fprintf(&w.sb, "transflow=%v ", safeFlow(x.TransportFlow))
	}
	w.value(reflect.ValueOf(l))
	w.sb.WriteByte('}')
}

func safeFlow(f func() gopacket.Flow) (s string) {
	defer func() {
		if r := recover(); r != nil {
			s = fmt.Sprintf("<panic %v>", r)
		}
	}()
	fl := f()
	return fmt.Sprintf("%d:%x>%x", fl.EndpointType(), fl.Src().Raw(), fl.Dst().Raw())
}

var timeType = reflect.TypeOf(time.Time{})
var ipType = reflect.TypeOf(net.IP{})
var layerIface = reflect.TypeOf((*gopacket.Layer)(nil)).Elem()

func (w *walker) value(v reflect.Value) {
	if w.depth > 40 {
		w.sb.WriteString("<deep>")
		return
	}
	w.depth++
	defer func() { w.depth-- }()
	if !v.IsValid() {
		w.sb.WriteString("<invalid>")
		return
	}
	switch v.Kind() {
	case reflect.Ptr:
		if v.IsNil() {
			w.sb.WriteString("nil")
			return
		}
		p := v.Pointer()
		if w.visited[p] && v.Elem().Kind() == reflect.Struct {
			w.sb.WriteString("<cycle>")
			return
		}
		w.visited[p] = true
		w.sb.WriteByte('&')
		w.value(v.Elem())
		delete(w.visited, p)
	case reflect.Interface:
		if v.IsNil() {
			w.sb.WriteString("nil")
			return
		}
		fmt.Fprintf(&w.sb, "(%s)", v.Elem().Type())
		w.value(v.Elem())
	case reflect.Struct:
		if v.Type() == timeType {
			if v.CanInterface() {
				fmt.Fprintf(&w.sb, "t%d", v.Interface().(time.Time).UnixNano())
			}
			return
		}
		w.sb.WriteByte('{')
		t := v.Type()
		for i := 0; i < t.NumField(); i++ {
			f := t.Field(i)
			if f.PkgPath != "" && !f.Anonymous {
				continue // unexported
			}
			if f.PkgPath != "" && f.Anonymous && f.Type.Kind() != reflect.Struct {
				continue
			}
			if w.skipBase && (f.Name == "ActualLength" || f.Name == "OptionAlignment") {
				continue // decode-side bookkeeping / serialisation hints, not wire fields
			}
			if w.skipBase && (f.Name == "BaseLayer" || f.Name == "Contents" || f.Name == "Payload") && f.Type.String() != "string" {
				continue
			}
			fmt.Fprintf(&w.sb, "%s:", f.Name)
			w.value(v.Field(i))
			w.sb.WriteByte(' ')
		}
		w.sb.WriteByte('}')
	case reflect.Slice, reflect.Array:
		if v.Kind() == reflect.Slice && v.Len() == 0 {
			w.sb.WriteString("[]") // nil == empty
			return
		}
		if v.Type().Elem().Kind() == reflect.Uint8 {
			b := make([]byte, v.Len())
			for i := range b {
				b[i] = byte(v.Index(i).Uint())
			}
			if w.skipBase && v.Type() == ipType && len(b) == 16 {
				if b4 := net.IP(b).To4(); b4 != nil {
					b = b4
				}
			}
			w.sb.WriteString("x" + short(b))
			return
		}
		w.sb.WriteByte('[')
		for i := 0; i < v.Len(); i++ {
			w.value(v.Index(i))
			w.sb.WriteByte(',')
		}
		w.sb.WriteByte(']')
	case reflect.Map:
		keys := v.MapKeys()
		strs := make([]string, len(keys))
		for i, k := range keys {
			sw := &walker{visited: w.visited, depth: w.depth}
			sw.value(k)
			sw.sb.WriteByte('=')
			sw.value(v.MapIndex(k))
			strs[i] = sw.sb.String()
		}
		sort.Strings(strs)
		w.sb.WriteString("map[" + strings.Join(strs, ";") + "]")
	case reflect.Bool:
		fmt.Fprintf(&w.sb, "%v", v.Bool())
	case reflect.Int, reflect.Int8, reflect.Int16, reflect.Int32, reflect.Int64:
		fmt.Fprintf(&w.sb, "%d", v.Int())
	case reflect.Uint, reflect.Uint8, reflect.Uint16, reflect.Uint32, reflect.Uint64, reflect.Uintptr:
		fmt.Fprintf(&w.sb, "%d", v.Uint())
	case reflect.Float32, reflect.Float64:
		fmt.Fprintf(&w.sb, "%v", v.Float())
	case reflect.String:
		fmt.Fprintf(&w.sb, "%q", v.String())
	case reflect.Func, reflect.Chan, reflect.UnsafePointer:
		w.sb.WriteString("<fn>")
	default:
		fmt.Fprintf(&w.sb, "<%s>", v.Kind())
	}
}

// Fields returns a signature of the exported fields of a layer value only — no contents/payload, no flows, and
// without the embedded BaseLayer — so that a constructed layer and its decoded counterpart can be compared.
// IP addresses are normalised to their 4-byte form where possible.
func Fields(l any) string {
	w := &walker{visited: map[uintptr]bool{}, skipBase: true}
	v := reflect.ValueOf(l)
	for v.Kind() == reflect.Ptr && !v.IsNil() {
		v = v.Elem() // a constructed value and a decoded pointer are the same layer
	}
	w.value(v)
	return w.sb.String()
}

// short renders a byte string: hex when small, length+FNV-64 when large (a packet of n layers would otherwise
// produce a signature quadratic in n, every layer's payload being the rest of the packet).
func short(b []byte) string {
	if len(b) <= 48 {
		return hex.EncodeToString(b)
	}
	h := fnv.New64a()
	h.Write(b)
	return fmt.Sprintf("%s…[%d bytes #%016x]", hex.EncodeToString(b[:8]), len(b), h.Sum64())
}

// Diff returns a short description of the first difference between two signatures ("" if equal).
func Diff(a, b string) string {
	if a == b {
		return ""
	}
	n := min(len(a), len(b))
	i := 0
	for i < n && a[i] == b[i] {
		i++
	}
	lo := max(0, i-60)
	return fmt.Sprintf("at %d: …%s… vs …%s…", i, a[lo:min(len(a), i+60)], b[lo:min(len(b), i+60)])
}

// FieldPath extracts the name of the exported field enclosing position i of signature s (best effort,
// used for known-finding keys): the last "Name:" token before i at brace depth <= 2.
func FieldPath(s string, i int) string {
	if i > len(s) {
		i = len(s)
	}
	depth := 0
	// find depth at position i and walk back to the nearest top-level field name
	last := ""
	d := 0
	start := 0
	for k := 0; k < i; k++ {
		switch s[k] {
		case '{', '[':
			d++
		case '}', ']':
			d--
		case ' ', ',':
			start = k + 1
		case ':':
			if d <= 3 && k > start {
				name := s[start:k]
				if isIdent(name) {
					last = name
				}
			}
		}
	}
	_ = depth
	return last
}

func isIdent(s string) bool {
	if s == "" || !(s[0] >= 'A' && s[0] <= 'Z') {
		return false
	}
	for _, r := range s {
		if !(r >= 'a' && r <= 'z' || r >= 'A' && r <= 'Z' || r >= '0' && r <= '9' || r == '_') {
			return false
		}
	}
	return true
}
