// Package inst collects layer instances (the bytes of one layer of a real packet, with and without its payload)
// from the repository's own packets and enumerates systematic variants of them. Option/TLV parsers fail in tiny
// regions of the input space (a length that ends one short, a type byte as the very last byte, a container that
// ends inside the padding of its last element) that random mutation of whole packets rarely reaches; the variants
// below reach them by construction.
package inst

import (
	"reflect"
	"sort"

	"github.com/gopacket/gopacket"
	"github.com/gopacket/gopacket/layers"

	"verifharness/internal/corpus"
	"verifharness/internal/fill"
	"verifharness/internal/registry"
	"verifharness/internal/vh"
)

// Instance is one layer cut out of a corpus packet.
type Instance struct {
	Type string             // Go struct type name
	LT   gopacket.LayerType // the layer's type (first layer type for packet decoding of Data)
	Data []byte
}

var wide16 = []uint16{0xffff, 0xfffe, 0xfffd, 0xfffc, 0x8000, 0x7fff, 0x0000, 0x0001}
var wide32 = []uint32{0xffffffff, 0xfffffffe, 0xfffffffd, 0xfffffffc, 0x80000000, 0x7fffffff}
var boundary = []byte{0x00, 0x01, 0x02, 0x03, 0x05, 0x7f, 0x80, 0xff}

// Collect returns the deduplicated instances (at most maxLen bytes each, at most perType per struct type, 0 = all).
func Collect(maxLen, perType int) []Instance {
	seen := map[uint64]bool{}
	count := map[string]int{}
	var out []Instance
	add := func(l gopacket.Layer, d []byte) {
		rt := reflect.TypeOf(l)
		if rt.Kind() != reflect.Ptr || len(d) == 0 || len(d) > maxLen {
			return
		}
		name := rt.Elem().Name()
		h := vh.Hash64(name, d)
		if seen[h] {
			return
		}
		seen[h] = true
		count[name]++
		out = append(out, Instance{name, l.LayerType(), append([]byte(nil), d...)})
	}
	std := []gopacket.LayerType{layers.LayerTypeEthernet, layers.LayerTypeIPv4, layers.LayerTypeIPv6, layers.LayerTypeDot11, layers.LayerTypeRadioTap, layers.LayerTypeLinuxSLL}
	all := registry.FirstLayers()
	take := func(s []byte, lt gopacket.LayerType, strict bool) bool {
		var p gopacket.Packet
		if pv, _ := vh.Recover(func() {
			p = gopacket.NewPacket(s, lt, gopacket.DecodeOptions{NoCopy: true, DecodeStreamsAsDatagrams: true})
			p.Layers()
		}); pv != nil {
			return false
		}
		ls := p.Layers()
		if strict {
			if p.ErrorLayer() != nil || len(ls) == 0 || len(ls[0].LayerContents()) == 0 || ls[0].LayerType() == gopacket.LayerTypePayload {
				return false
			}
		} else if len(ls) < 2 || p.ErrorLayer() != nil && len(ls) < 3 {
			return false
		}
		for _, l := range ls {
			if l.LayerType() == gopacket.LayerTypeDecodeFailure || l.LayerType() == gopacket.LayerTypePayload {
				continue
			}
			c := l.LayerContents()
			add(l, c)
			if pl := l.LayerPayload(); len(pl) > 0 && len(c)+len(pl) <= maxLen {
				add(l, append(append([]byte(nil), c...), pl...))
			}
		}
		return true
	}
	for _, s := range corpus.Seeds() {
		if len(s) > 4000 {
			continue
		}
		ok := false
		for _, lt := range std {
			if take(s, lt, false) {
				ok = true
				break
			}
		}
		if !ok && len(s) <= 600 {
			// a bare upper-layer message (the repository's tests decode many of them directly): every first layer
			// that makes clean sense of the whole seed
			for _, lt := range all {
				take(s, lt, true)
			}
		}
	}
	// serializable layer types the corpus does not (or hardly) cover: reflection-filled values written with
	// length fixing give well-formed wire bytes of those types too
	sopts := gopacket.SerializeOptions{FixLengths: true, ComputeChecksums: true}
	for _, t := range registry.Serializable() {
		for seed := uint64(1); seed <= 6; seed++ {
			v := t.New()
			sl, ok := v.(gopacket.SerializableLayer)
			l, ok2 := v.(gopacket.Layer)
			if !ok || !ok2 {
				break
			}
			var b []byte
			if pv, _ := vh.Recover(func() {
				fill.Fill(v, seed*0x9e3779b97f4a7c15)
				buf := gopacket.NewSerializeBuffer()
				if err := gopacket.SerializeLayers(buf, sopts, sl, gopacket.Payload([]byte{1, 2, 3, 4})); err == nil {
					b = append([]byte(nil), buf.Bytes()...)
				}
			}); pv != nil || len(b) == 0 {
				continue
			}
			var lt gopacket.LayerType
			if pv, _ := vh.Recover(func() { lt = l.LayerType() }); pv != nil {
				continue
			}
			// A filled value may carry a header constant its own decoder refuses (version numbers, magic values):
			// look for one byte among the first eight whose change makes the decoder accept the bytes.
			if bd, ok := t.New().(registry.ByteDecoder); ok && !accepts(bd, b) {
			repair:
				for i := 0; i < len(b) && i < 8; i++ {
					old := b[i]
					for x := 0; x < 256; x++ {
						b[i] = byte(x)
						if accepts(t.New().(registry.ByteDecoder), b) {
							break repair
						}
					}
					b[i] = old
				}
			}
			if len(b) <= maxLen {
				h := vh.Hash64(t.Name, b)
				if !seen[h] {
					seen[h] = true
					count[t.Name]++
					out = append(out, Instance{t.Name, lt, b})
				}
			}
		}
	}
	sort.Slice(out, func(i, j int) bool {
		if out[i].Type != out[j].Type {
			return out[i].Type < out[j].Type
		}
		if len(out[i].Data) != len(out[j].Data) {
			return len(out[i].Data) > len(out[j].Data) // long (option-rich) instances first
		}
		return string(out[i].Data) < string(out[j].Data)
	})
	if perType <= 0 {
		return out
	}
	// at most perType per type: the longest one, then evenly spread over the length-sorted rest
	var capped []Instance
	for i := 0; i < len(out); {
		j := i
		for j < len(out) && out[j].Type == out[i].Type {
			j++
		}
		n := j - i
		if n <= perType {
			capped = append(capped, out[i:j]...)
		} else {
			for k := 0; k < perType; k++ {
				capped = append(capped, out[i+k*n/perType])
			}
		}
		i = j
	}
	return capped
}

// Variants calls fn with every systematic variant of data (fn must not keep the slice):
//   - every truncation;
//   - every single byte set to each of 8 boundary values;
//   - every pair of bytes within distance 3 inside the first and the last 6 bytes set to every combination of them;
//   - the big-endian integer of width 1..4 at every position changed by -3..+3 (length fields one off);
//   - the 16- and 32-bit word at every position set to the extremes of its width (all ones and the three values below,
//     the sign boundary, 0, 1): length fields whose rounding or summing wraps in the field's own width;
//   - "closed" elements: the byte at every position set to 0..3 and the input cut right behind that many
//     further bytes (a last element with a tiny length), each also with the last three bytes set to the
//     boundary values.
func Variants(data []byte, fn func([]byte)) {
	L := len(data)
	buf := make([]byte, L)
	reset := func() { copy(buf, data) }
	for k := 0; k <= L; k++ {
		reset()
		fn(buf[:k:k])
	}
	for i := 0; i < L; i++ {
		for _, v := range boundary {
			reset()
			buf[i] = v
			fn(buf)
		}
	}
	for i := 0; i < L; i++ {
		if i >= 6 && i < L-6 {
			continue
		}
		for j := i + 1; j < L && j <= i+3; j++ {
			for _, v := range boundary {
				for _, w := range boundary {
					reset()
					buf[i], buf[j] = v, w
					fn(buf)
				}
			}
		}
	}
	for i := 0; i < L; i++ {
		for w := 1; w <= 4 && i+w <= L; w++ {
			var x uint32
			for k := 0; k < w; k++ {
				x = x<<8 | uint32(data[i+k])
			}
			for d := -3; d <= 3; d++ {
				if d == 0 || w == 1 && (d == 1 || d == -1) && false {
					continue
				}
				y := x + uint32(d)
				reset()
				for k := w - 1; k >= 0; k-- {
					buf[i+k] = byte(y)
					y >>= 8
				}
				fn(buf)
			}
		}
	}
	for i := 0; i+2 <= L; i++ {
		for _, x := range wide16 {
			reset()
			buf[i], buf[i+1] = byte(x>>8), byte(x)
			fn(buf)
		}
		if i+4 <= L {
			for _, x := range wide32 {
				reset()
				buf[i], buf[i+1], buf[i+2], buf[i+3] = byte(x>>24), byte(x>>16), byte(x>>8), byte(x)
				fn(buf)
			}
		}
	}
	for i := 0; i < L; i++ {
		for v := 0; v <= 3 && i+1+v <= L; v++ {
			reset()
			buf[i] = byte(v)
			cut := buf[: i+1+v : i+1+v]
			fn(cut)
			for t := len(cut) - 1; t >= 0 && t >= len(cut)-3 && t != i; t-- {
				old := cut[t]
				for _, b := range boundary {
					cut[t] = b
					fn(cut)
				}
				cut[t] = old
			}
		}
	}
}

func accepts(bd registry.ByteDecoder, b []byte) bool {
	var err error
	if pv, _ := vh.Recover(func() { err = bd.DecodeFromBytes(append([]byte(nil), b...), gopacket.NilDecodeFeedback) }); pv != nil {
		return false
	}
	return err == nil
}
