// Package c03 checks property C03: lazy decoding is observationally equivalent to eager decoding
// (DESIGN.md §5 C03). Oracle: the same accessor program, step by step, on a lazy and an eager packet.
package c03

import (
	"encoding/json"
	"fmt"
	"reflect"
	"testing"
	"time"

	"github.com/gopacket/gopacket"
	"github.com/gopacket/gopacket/layers"
	"pgregory.net/rapid"

	"verifharness/internal/acc"
	"verifharness/internal/corpus"
	"verifharness/internal/gen"
	"verifharness/internal/registry"
	"verifharness/internal/vh"
)

var S = vh.New("C03")

func TestMain(m *testing.M) { vh.Main(m, S) }

type Case struct {
	LT      int        `json:"lt"`
	Name    string     `json:"name"`
	Data    []byte     `json:"data"`
	NoCopy  bool       `json:"no_copy"`
	Streams bool       `json:"streams"`
	Prog    []acc.Step `json:"prog"`
}

type info struct {
	layers       int
	stoppedEarly bool
	skipped      bool
}

func runCase(c *Case) (f *vh.Failure, in info) {
	S.Guard("TestLazy", c.Name, c, 90*time.Second, func() { f, in = runCase1(c) })
	return
}

func runCase1(c *Case) (*vh.Failure, info) {
	var in info
	if len(c.Data) == 0 {
		return nil, in
	}
	lt := gopacket.LayerType(c.LT)
	mk := func(lazy bool) gopacket.Packet {
		return gopacket.NewPacket(append([]byte(nil), c.Data...), lt, gopacket.DecodeOptions{Lazy: lazy, NoCopy: c.NoCopy, DecodeStreamsAsDatagrams: c.Streams})
	}
	var lp, ep gopacket.Packet
	if pv, _ := vh.Recover(func() { lp, ep = mk(true), mk(false) }); pv != nil {
		in.skipped = true // a panic escaping NewPacket is C01's subject
		return nil, in
	}
	// how far does the first call decode lazily? (non-triviality measure)
	total := len(mk(false).Layers())
	in.layers = total
	for i, s := range c.Prog {
		var lr, er string
		pv1, _ := vh.Recover(func() { lr = acc.Exec(lp, s) })
		pv2, _ := vh.Recover(func() { er = acc.Exec(ep, s) })
		if pv1 != nil || pv2 != nil {
			in.skipped = true // accessor panics are C01's subject
			return nil, in
		}
		if i == 0 {
			// number of layers the lazy packet has decoded so far, observed without forcing more
			probe := mk(true)
			vh.Recover(func() { acc.Exec(probe, s) })
			if n := decodedSoFar(probe); n < total {
				in.stoppedEarly = true
			}
		}
		if lr != er {
			return vh.Failf("diff:"+s.Op+":"+lt.String(), "step %d %s(%d) on %d bytes as %v: lazy and eager differ %s", i, s.Op, s.Arg, len(c.Data), lt, diff(lr, er)), in
		}
	}
	// once all layers have been requested: full agreement incl. truncation flag and renderings
	for _, s := range []acc.Step{{Op: "Layers"}, {Op: "Metadata"}, {Op: "String"}, {Op: "Dump"}, {Op: "Error"}, {Op: "Link"}, {Op: "Network"}, {Op: "Transport"}, {Op: "Application"}} {
		var lr, er string
		pv1, _ := vh.Recover(func() { lr = acc.Exec(lp, s) })
		pv2, _ := vh.Recover(func() { er = acc.Exec(ep, s) })
		if pv1 != nil || pv2 != nil {
			in.skipped = true
			return nil, in
		}
		if lr != er {
			return vh.Failf("final-diff:"+s.Op+":"+lt.String(), "after the program, %s differs between lazy and eager (%d bytes as %v): %s", s.Op, len(c.Data), lt, diff(lr, er)), in
		}
	}
	return nil, in
}

// decodedSoFar reports how many layers a lazy packet has decoded so far without forcing more decoding. The
// Packet interface offers no such window, so the length of the packet's internal layer slice is read through
// reflection (Len() of an unexported field is permitted). Used only for the non-triviality statistic: if the
// internals change the function reports "everything decoded" and the case simply counts as trivial.
func decodedSoFar(p gopacket.Packet) int {
	defer func() { recover() }()
	v := reflect.ValueOf(p)
	for v.Kind() == reflect.Ptr || v.Kind() == reflect.Interface {
		v = v.Elem()
	}
	if f := v.FieldByName("packet"); f.IsValid() {
		if l := f.FieldByName("layers"); l.IsValid() && l.Kind() == reflect.Slice {
			return l.Len()
		}
	}
	return 1 << 30
}

func diff(a, b string) string {
	n := min(len(a), len(b))
	i := 0
	for i < n && a[i] == b[i] {
		i++
	}
	lo := max(0, i-50)
	return fmt.Sprintf("at %d: lazy …%s… eager …%s…", i, a[lo:min(len(a), i+70)], b[lo:min(len(b), i+70)])
}

func genCase(t *rapid.T) *Case {
	fl := registry.FirstLayers()
	lt := fl[rapid.IntRange(0, len(fl)-1).Draw(t, "first")]
	if rapid.IntRange(0, 2).Draw(t, "eth") == 0 {
		lt = layers.LayerTypeEthernet
	}
	c := &Case{LT: int(lt), Name: lt.String(), NoCopy: rapid.Bool().Draw(t, "nocopy"), Streams: rapid.Bool().Draw(t, "streams")}
	c.Data, _ = gen.Bytes(t)
	if lt == layers.LayerTypeEthernet && rapid.Bool().Draw(t, "usestack") {
		if st := gen.Stack(t); st.Err == nil && len(st.Bytes) > 0 {
			c.Data = st.Bytes
			if rapid.IntRange(0, 2).Draw(t, "mut") == 0 {
				c.Data = gen.Mutate(t, c.Data)
			}
		}
	}
	if rapid.IntRange(0, 5).Draw(t, "suffix") == 0 {
		// a stack decoded from one of its inner layers on (capture above the link layer, tunnel payload)
		if b, slt, ok := gen.StackSuffix(t); ok {
			c.LT, c.Name, c.Data = int(slt), slt.String(), b
		}
	}
	if len(c.Data) > 3000 && rapid.IntRange(0, 19).Draw(t, "keepbig") > 0 {
		// a 64 KiB input can decode into ~20000 layers; 24 rendered comparisons of such packets cost seconds, so
		// most large inputs are cut (the few that stay keep the class populated)
		c.Data = c.Data[:3000]
	}
	c.Prog = acc.Gen(t, acc.LazyOps, 15)
	return c
}

func check(t vh.TB, c *Case, extra ...string) {
	f, in := runCase(c)
	cls := extra
	if in.skipped {
		cls = append(cls, "skipped-panic-is-C01")
	}
	if in.stoppedEarly {
		cls = append(cls, "first-call-stops-before-last-layer")
	}
	nt := in.stoppedEarly && in.layers >= 3
	S.Note(vh.Hash64(c.LT, c.Data, c.NoCopy, c.Streams, fmt.Sprint(c.Prog)), nt, cls...)
	if nt && len(c.Data) < 160 && S.WantSample() {
		S.Sample(c)
	}
	S.Check(t, "TestLazy", c, f)
}

func TestLazy(t *testing.T) {
	rapid.Check(t, func(rt *rapid.T) { check(rt, genCase(rt)) })
}

// TestOrders: every permutation of the 7 nullary accessors (5040) on multi-layer corpus seeds.
func TestOrders(t *testing.T) {
	seeds := corpus.Seeds()
	ops := []string{"Layers", "Link", "Network", "Transport", "Application", "Error", "String"}
	var multi [][]byte
	for _, s := range seeds {
		if len(s) >= 54 && len(s) <= 400 {
			if p := gopacket.NewPacket(s, layers.LayerTypeEthernet, gopacket.Default); len(p.Layers()) >= 4 {
				multi = append(multi, s)
			}
		}
	}
	nseeds := 6
	if vh.Thorough() {
		nseeds = 200
	}
	sh, nsh := vh.Shard()
	total := int64(0)
	for si := sh; si < len(multi) && si < nseeds; si += nsh {
		s := multi[si*len(multi)/max(nseeds, 1)%len(multi)]
		permute(len(ops), func(p []int) {
			prog := make([]acc.Step, len(p))
			for i, k := range p {
				prog[i] = acc.Step{Op: ops[k]}
			}
			total++
			check(t, &Case{LT: int(layers.LayerTypeEthernet), Name: "Ethernet", Data: s, Prog: prog}, "exhaustive-accessor-order")
		})
		if t.Failed() {
			return
		}
	}
	S.Extra("exhaustive_orders_total", total)
}

func permute(n int, f func([]int)) {
	a := make([]int, n)
	for i := range a {
		a[i] = i
	}
	var rec func(int)
	rec = func(k int) {
		if k == n {
			f(a)
			return
		}
		for i := k; i < n; i++ {
			a[k], a[i] = a[i], a[k]
			rec(k + 1)
			a[k], a[i] = a[i], a[k]
		}
	}
	rec(0)
}

func TestRegress(t *testing.T) {
	S.Regress(t, func(rf *vh.ReplayFile) (bool, *vh.Failure) {
		var c Case
		if err := json.Unmarshal(rf.Case, &c); err != nil {
			t.Fatal(err)
		}
		f, _ := runCase(&c)
		return true, f
	})
}
