// Package c14 checks property C14: capture files round-trip, libpcap reads the same packets, and a file cut at
// any byte offset yields exactly the packets wholly contained in the prefix (DESIGN.md §5 C14).
package c14

import (
	"bytes"
	"encoding/binary"
	"encoding/json"
	"errors"
	"fmt"
	"io"
	"os"
	"path/filepath"
	"reflect"
	"testing"
	"time"

	"github.com/gopacket/gopacket"
	"github.com/gopacket/gopacket/layers"
	"github.com/gopacket/gopacket/pcap"
	"github.com/gopacket/gopacket/pcapgo"
	"pgregory.net/rapid"

	"verifharness/internal/vh"
)

var S = vh.New("C14")

func TestMain(m *testing.M) { vh.Main(m, S) }

type PktOpts struct {
	Comments  []string `json:"comments,omitempty"`
	Flags     *uint32  `json:"flags,omitempty"`
	Hashes    [][]byte `json:"hashes,omitempty"` // first byte: algorithm
	DropCount *uint64  `json:"drop,omitempty"`
	PacketID  *uint64  `json:"pid,omitempty"`
	Queue     *uint32  `json:"queue,omitempty"`
	Verdicts  [][]byte `json:"verdicts,omitempty"` // first byte: type
}

type Pkt struct {
	Len      int      `json:"len"`
	Wire     int      `json:"wire"`
	Sec      int64    `json:"sec"`
	Nsec     int64    `json:"nsec"`
	Iface    int      `json:"iface,omitempty"`
	Salt     byte     `json:"salt"`
	Opts     *PktOpts `json:"opts,omitempty"`
	ZeroCopy bool     `json:"zc,omitempty"`
}

type Iface struct {
	Name, Comment, Description, Filter, OS string
	LinkType                               int
	Snap                                   uint32
	TsOffset                               uint64
}

// Ev is one thing written to the file, in order.
type Ev struct {
	K      string `json:"k"` // packet | iface | stats | dsb
	P      *Pkt   `json:"p,omitempty"`
	I      *Iface `json:"i,omitempty"`
	StatIf int    `json:"stat_if,omitempty"`
	Recv   uint64 `json:"recv,omitempty"`
	Drop   uint64 `json:"dropc,omitempty"`
	Secret []byte `json:"secret,omitempty"`
}

type Case struct {
	Format   string               `json:"format"` // pcap-us | pcap-ns | pcapng
	LinkType int                  `json:"linktype"`
	Snaplen  uint32               `json:"snaplen"`
	First    Iface                `json:"first"`
	Section  pcapgo.NgSectionInfo `json:"section"`
	Events   []Ev                 `json:"events"`
	Cuts     []int                `json:"cuts,omitempty"` // explicit cut offsets (replay); empty: sampled/exhaustive
	AllCuts  bool                 `json:"all_cuts"`
	Libpcap  bool                 `json:"libpcap"`
}

func pktData(p *Pkt) []byte {
	b := make([]byte, p.Len)
	for i := range b {
		b[i] = byte(i*5+1) ^ p.Salt
	}
	return b
}

func (o *PktOpts) toNg() pcapgo.NgPacketOptions {
	var r pcapgo.NgPacketOptions
	if o == nil {
		return r
	}
	r.Comments = o.Comments
	if o.Flags != nil {
		f := pcapgo.NgEpbFlags{}
		f.FromUint32(*o.Flags)
		r.Flags = &f
	}
	for _, h := range o.Hashes {
		r.Hashes = append(r.Hashes, pcapgo.NgEpbHash{Algorithm: pcapgo.NgEpbHashAlgorithm(h[0]), Hash: h[1:]})
	}
	r.DropCount, r.PacketID, r.Queue = o.DropCount, o.PacketID, o.Queue
	for _, v := range o.Verdicts {
		r.Verdicts = append(r.Verdicts, pcapgo.NgEpbVerdict{Type: pcapgo.NgEpbVerdictType(v[0]), Data: v[1:]})
	}
	return r
}

func (i *Iface) toNg() pcapgo.NgInterface {
	return pcapgo.NgInterface{Name: i.Name, Comment: i.Comment, Description: i.Description, Filter: i.Filter, OS: i.OS,
		LinkType: layers.LinkType(i.LinkType), SnapLength: i.Snap, TimestampOffset: i.TsOffset, TimestampResolution: 9}
}

type written struct {
	pkt  *Pkt
	data []byte
	ci   gopacket.CaptureInfo
	end  int // file offset after this packet was flushed
	link layers.LinkType
	opts pcapgo.NgPacketOptions
}

// writeFile produces the file and the list of packets with their end offsets.
func writeFile(c *Case) (file []byte, pkts []written, ifaces []Iface, hdrEnd int, err error) {
	var buf bytes.Buffer
	ts := func(p *Pkt) time.Time { return time.Unix(p.Sec, p.Nsec).UTC() }
	switch c.Format {
	case "pcap-us", "pcap-ns":
		w := pcapgo.NewWriter(&buf)
		if c.Format == "pcap-ns" {
			w = pcapgo.NewWriterNanos(&buf)
		}
		if err = w.WriteFileHeader(c.Snaplen, layers.LinkType(c.LinkType)); err != nil {
			return
		}
		hdrEnd = buf.Len()
		for i := range c.Events {
			p := c.Events[i].P
			if c.Events[i].K != "packet" || p == nil {
				continue
			}
			d := pktData(p)
			ci := gopacket.CaptureInfo{Timestamp: ts(p), CaptureLength: p.Len, Length: p.Wire}
			if err = w.WritePacket(ci, d); err != nil {
				return
			}
			pkts = append(pkts, written{pkt: p, data: d, ci: ci, end: buf.Len(), link: layers.LinkType(c.LinkType)})
		}
	default:
		var w *pcapgo.NgWriter
		w, err = pcapgo.NewNgWriterInterface(&buf, c.First.toNg(), pcapgo.NgWriterOptions{SectionInfo: c.Section})
		if err != nil {
			return
		}
		ifaces = append(ifaces, c.First)
		w.Flush()
		hdrEnd = buf.Len()
		for i := range c.Events {
			e := &c.Events[i]
			switch e.K {
			case "iface":
				if _, err = w.AddInterface(e.I.toNg()); err != nil {
					return
				}
				ifaces = append(ifaces, *e.I)
			case "stats":
				if err = w.WriteInterfaceStats(e.StatIf%len(ifaces), pcapgo.NgInterfaceStatistics{PacketsReceived: e.Recv, PacketsDropped: e.Drop, LastUpdate: time.Unix(1700000000, 5).UTC()}); err != nil {
					return
				}
			case "dsb":
				if err = w.WriteDecryptionSecretsBlock(pcapgo.DSB_SECRETS_TYPE_TLS, e.Secret); err != nil {
					return
				}
			case "packet":
				p := e.P
				d := pktData(p)
				ci := gopacket.CaptureInfo{Timestamp: ts(p), CaptureLength: p.Len, Length: p.Wire, InterfaceIndex: p.Iface % len(ifaces)}
				o := p.Opts.toNg()
				if err = w.WritePacketWithOptions(ci, d, o); err != nil {
					return
				}
				if err = w.Flush(); err != nil {
					return
				}
				pkts = append(pkts, written{pkt: p, data: d, ci: ci, end: buf.Len(), link: layers.LinkType(ifaces[ci.InterfaceIndex].LinkType), opts: o})
				continue
			}
			w.Flush()
		}
		w.Flush()
	}
	return buf.Bytes(), pkts, ifaces, hdrEnd, nil
}

type readPkt struct {
	data []byte
	ci   gopacket.CaptureInfo
	opts pcapgo.NgPacketOptions
}

// readAll reads a (possibly cut) file; returns packets, the final error and, for a failing constructor, ctorErr.
func readAll(c *Case, file []byte, mixed bool, zc func(i int) bool) (out []readPkt, final error, ctorErr error, ng *pcapgo.NgReader) {
	if c.Format != "pcapng" {
		r, err := pcapgo.NewReader(bytes.NewReader(file))
		if err != nil {
			return nil, nil, err, nil
		}
		for i := 0; ; i++ {
			var d []byte
			var ci gopacket.CaptureInfo
			if zc(i) {
				d, ci, err = r.ZeroCopyReadPacketData()
				d = append([]byte(nil), d...)
			} else {
				d, ci, err = r.ReadPacketData()
			}
			if err != nil {
				return out, err, nil, nil
			}
			out = append(out, readPkt{data: d, ci: ci})
		}
	}
	r, err := pcapgo.NewNgReader(bytes.NewReader(file), pcapgo.NgReaderOptions{WantMixedLinkType: mixed})
	if err != nil {
		return nil, nil, err, nil
	}
	for i := 0; ; i++ {
		var d []byte
		var ci gopacket.CaptureInfo
		var o pcapgo.NgPacketOptions
		if zc(i) {
			d, ci, o, err = r.ZeroCopyReadPacketDataWithOptions()
			d = append([]byte(nil), d...)
			// zero-copy results alias the reader's buffers (data and ancillary data) until the next call
			ci.AncillaryData = append([]interface{}(nil), ci.AncillaryData...)
		} else {
			d, ci, o, err = r.ReadPacketDataWithOptions()
		}
		if err != nil {
			return out, err, nil, r
		}
		out = append(out, readPkt{data: d, ci: ci, opts: o})
	}
}

func optsEqual(a, b pcapgo.NgPacketOptions) (bool, string) {
	na := func(s []string) []string {
		if len(s) == 0 {
			return nil
		}
		return s
	}
	if !reflect.DeepEqual(na(a.Comments), na(b.Comments)) {
		return false, fmt.Sprintf("comments %q vs %q", a.Comments, b.Comments)
	}
	if (a.Flags == nil) != (b.Flags == nil) || a.Flags != nil && a.Flags.ToUint32() != b.Flags.ToUint32() {
		return false, "flags"
	}
	if len(a.Hashes) != len(b.Hashes) || len(a.Verdicts) != len(b.Verdicts) {
		return false, "hash/verdict count"
	}
	for i := range a.Hashes {
		if a.Hashes[i].Algorithm != b.Hashes[i].Algorithm || !bytes.Equal(a.Hashes[i].Hash, b.Hashes[i].Hash) {
			return false, fmt.Sprintf("hash %d: %v vs %v", i, a.Hashes[i], b.Hashes[i])
		}
	}
	for i := range a.Verdicts {
		if a.Verdicts[i].Type != b.Verdicts[i].Type || !bytes.Equal(a.Verdicts[i].Data, b.Verdicts[i].Data) {
			return false, fmt.Sprintf("verdict %d: %v vs %v", i, a.Verdicts[i], b.Verdicts[i])
		}
	}
	pe := func(x, y *uint64) bool { return (x == nil) == (y == nil) && (x == nil || *x == *y) }
	if !pe(a.DropCount, b.DropCount) {
		return false, "drop count"
	}
	if !pe(a.PacketID, b.PacketID) {
		return false, "packet id"
	}
	if (a.Queue == nil) != (b.Queue == nil) || a.Queue != nil && *a.Queue != *b.Queue {
		return false, "queue"
	}
	return true, ""
}

func comparePkt(c *Case, i int, w *written, r *readPkt, ifaces []Iface, mixed bool) *vh.Failure {
	f := c.Format
	if !bytes.Equal(w.data, r.data) {
		return vh.Failf(f+":data", "packet %d: data read back differs (len %d vs %d)", i, len(r.data), len(w.data))
	}
	if r.ci.CaptureLength != w.ci.CaptureLength || r.ci.Length != w.ci.Length {
		return vh.Failf(f+":lengths", "packet %d: lengths read back (%d,%d), written (%d,%d)", i, r.ci.CaptureLength, r.ci.Length, w.ci.CaptureLength, w.ci.Length)
	}
	want := w.ci.Timestamp
	if f == "pcap-us" {
		want = want.Truncate(time.Microsecond)
	}
	if !r.ci.Timestamp.Equal(want) {
		key := f + ":timestamp"
		if f == "pcapng" && ifaces[w.ci.InterfaceIndex].TsOffset != 0 && r.ci.Timestamp.Equal(want.Add(time.Duration(ifaces[w.ci.InterfaceIndex].TsOffset)*time.Second)) {
			key = f + ":ts-offset" // known finding: shifted by exactly the interface's offset
		}
		return vh.Failf(key, "packet %d: timestamp read back %v, written %v (interface offset %d)", i, r.ci.Timestamp, want, func() uint64 {
			if f == "pcapng" {
				return ifaces[w.ci.InterfaceIndex].TsOffset
			}
			return 0
		}())
	}
	if f == "pcapng" {
		if r.ci.InterfaceIndex != w.ci.InterfaceIndex {
			return vh.Failf(f+":interface", "packet %d: interface index %d, written %d", i, r.ci.InterfaceIndex, w.ci.InterfaceIndex)
		}
		if mixed {
			if len(r.ci.AncillaryData) != 1 || r.ci.AncillaryData[0] != w.link {
				return vh.Failf(f+":linktype", "packet %d: link type %v, written %v", i, r.ci.AncillaryData, w.link)
			}
		}
		if ok, what := optsEqual(w.opts, r.opts); !ok {
			key := f + ":options"
			for _, cm := range w.opts.Comments {
				if cm == "" {
					key = f + ":empty-option"
				}
			}
			for _, h := range w.opts.Hashes {
				if len(h.Hash) == 0 {
					key = f + ":options-short-value"
				}
			}
			return vh.Failf(key, "packet %d: options read back differ: %s", i, what)
		}
	}
	return nil
}

func isEOFish(err error) bool {
	return errors.Is(err, io.EOF) || errors.Is(err, io.ErrUnexpectedEOF)
}

func runCase(c *Case, st *stats) (f *vh.Failure) {
	var failure *vh.Failure
	S.Guard("TestFiles", c.Format, c, 120*time.Second, func() {
		pv, stack := vh.Recover(func() { failure = runCase1(c, st) })
		if pv != nil {
			fn, where := vh.InnermostRepoFunc(stack)
			failure = vh.Failf(c.Format+":panic:"+fn, "panic %v at %s", pv, where)
		}
	})
	return failure
}

type stats struct {
	cuts, cutsInside int
	exhaustive       bool
	libpcap          bool
	fileLen          int
}

func runCase1(c *Case, st *stats) *vh.Failure {
	file, pkts, ifaces, hdrEnd, err := writeFile(c)
	if err != nil {
		return vh.Failf(c.Format+":write-error", "writer refused valid input: %v", err)
	}
	st.fileLen = len(file)
	mixed := false
	for _, i := range ifaces {
		if i.LinkType != ifaces[0].LinkType {
			mixed = true
		}
	}
	zc := func(i int) bool { return i < len(pkts) && pkts[i].pkt.ZeroCopy }
	// (1) read-back equality
	got, final, ctorErr, ng := readAll(c, file, mixed, zc)
	if ctorErr != nil {
		return vh.Failf(c.Format+":reader-rejects", "reader constructor failed on a complete file: %v", ctorErr)
	}
	if len(got) != len(pkts) || final != io.EOF {
		return vh.Failf(c.Format+":count", "read back %d packets (final error %v), wrote %d", len(got), final, len(pkts))
	}
	// a mismatch that is only the (known) timestamp-offset shift is remembered and the remaining oracles still run
	var soft *vh.Failure
	for i := range pkts {
		if f := comparePkt(c, i, &pkts[i], &got[i], ifaces, mixed); f != nil {
			if f.Key == "pcapng:ts-offset" {
				soft = f
				continue
			}
			return f
		}
	}
	if ng != nil {
		if si := ng.SectionInfo(); si != c.Section {
			return vh.Failf(c.Format+":section-info", "section info read back %+v, written %+v", si, c.Section)
		}
		if ng.NInterfaces() != len(ifaces) {
			return vh.Failf(c.Format+":interfaces", "%d interfaces read back, %d written", ng.NInterfaces(), len(ifaces))
		}
		for i, want := range ifaces {
			g, err := ng.Interface(i)
			if err != nil {
				return vh.Failf(c.Format+":interfaces", "Interface(%d): %v", i, err)
			}
			if g.Name != want.Name || g.Comment != want.Comment || g.Description != want.Description || g.Filter != want.Filter || g.OS != want.OS ||
				int(g.LinkType) != want.LinkType || g.SnapLength != want.Snap || g.TimestampOffset != want.TsOffset {
				return vh.Failf(c.Format+":interface-description", "interface %d read back %+v, written %+v", i, g, want)
			}
		}
		if f := wellFormedNg(file); f != nil {
			return f
		}
	}
	// (2) libpcap reads the same packets
	sameSnap := true
	for _, i := range ifaces {
		if i.Snap != ifaces[0].Snap {
			sameSnap = false // libpcap refuses files whose interfaces differ in snapshot length (or link type)
		}
	}
	if c.Libpcap && !mixed && sameSnap {
		if f := libpcapDiff(c, file, pkts, ifaces); f != nil {
			return f
		}
		st.libpcap = true
	}
	// (3) crash points
	var cuts []int
	switch {
	case len(c.Cuts) > 0:
		cuts = c.Cuts
	case c.AllCuts:
		for x := 0; x < len(file); x++ {
			cuts = append(cuts, x)
		}
		st.exhaustive = true
	default:
		seen := map[int]bool{}
		add := func(x int) {
			if x >= 0 && x < len(file) && !seen[x] {
				seen[x] = true
				cuts = append(cuts, x)
			}
		}
		for x := 0; x <= hdrEnd+1 && x < 64; x++ {
			add(x)
		}
		add(hdrEnd - 1)
		add(hdrEnd)
		prev := hdrEnd
		for _, p := range pkts {
			for _, d := range []int{-1, 0, 1} {
				add(p.end + d)
			}
			add(prev + 8)
			add(prev + 16)
			add(prev + 27)
			add((prev + p.end) / 2)
			add(p.end - 4)
			add(p.end - 5)
			prev = p.end
		}
	}
	for _, cut := range cuts {
		if cut >= len(file) {
			continue
		}
		st.cuts++
		want := 0
		inside := cut > hdrEnd
		for _, p := range pkts {
			if p.end <= cut {
				want++
			}
			if p.end == cut {
				inside = false
			}
		}
		if inside {
			st.cutsInside++
		}
		got, final, ctorErr, _ := readAll(c, file[:cut], mixed, zc)
		if ctorErr != nil {
			if want > 0 {
				return vh.Failf(c.Format+":cut:constructor", "file cut at %d of %d: constructor failed (%v) although %d packets are complete", cut, len(file), ctorErr, want)
			}
			if !isEOFish(ctorErr) {
				return vh.Failf(c.Format+":cut:constructor-error", "file cut at %d (inside the header): constructor error is %v, not an end-of-file error", cut, ctorErr)
			}
			continue
		}
		if len(got) != want {
			return vh.Failf(c.Format+":cut:count", "file cut at %d of %d: reader returned %d packets, %d are wholly contained in the prefix (final error %v)", cut, len(file), len(got), want, final)
		}
		if !isEOFish(final) {
			return vh.Failf(c.Format+":cut:final-error", "file cut at %d of %d: after %d packets the reader returned %v, not an end-of-file error", cut, len(file), len(got), final)
		}
		for i := range got {
			if f := comparePkt(c, i, &pkts[i], &got[i], ifaces, mixed); f != nil {
				if f.Key == "pcapng:ts-offset" {
					continue
				}
				f.Key = c.Format + ":cut:" + f.Key[len(c.Format)+1:]
				f.Msg = fmt.Sprintf("file cut at %d: %s", cut, f.Msg)
				return f
			}
		}
	}
	return soft
}

// wellFormedNg is an independent walk over the block structure of a little-endian pcapng file.
func wellFormedNg(b []byte) *vh.Failure {
	off := 0
	for off < len(b) {
		if off+12 > len(b) {
			return vh.Failf("pcapng:malformed", "dangling %d bytes at offset %d", len(b)-off, off)
		}
		typ := binary.LittleEndian.Uint32(b[off:])
		l := int(binary.LittleEndian.Uint32(b[off+4:]))
		if l%4 != 0 || l < 12 || off+l > len(b) {
			return vh.Failf("pcapng:malformed", "block type %#x at %d has bad total length %d", typ, off, l)
		}
		if int(binary.LittleEndian.Uint32(b[off+l-4:])) != l {
			return vh.Failf("pcapng:malformed", "block type %#x at %d: trailing length %d != leading %d", typ, off, binary.LittleEndian.Uint32(b[off+l-4:]), l)
		}
		body := b[off+8 : off+l-4]
		optOff := -1
		switch typ {
		case 0x0A0D0D0A:
			optOff = 16
		case 1:
			optOff = 8
		case 5:
			optOff = 12
		case 6:
			if len(body) < 20 {
				return vh.Failf("pcapng:malformed", "EPB at %d too short", off)
			}
			capl := int(binary.LittleEndian.Uint32(body[12:]))
			optOff = 20 + (capl+3)/4*4
		}
		if optOff >= 0 && optOff <= len(body) {
			opts := body[optOff:]
			sawEnd := len(opts) == 0
			for len(opts) > 0 {
				if len(opts) < 4 {
					return vh.Failf("pcapng:malformed", "block at %d: truncated option header", off)
				}
				code := binary.LittleEndian.Uint16(opts)
				ol := int(binary.LittleEndian.Uint16(opts[2:]))
				pl := (ol + 3) / 4 * 4
				if 4+pl > len(opts) {
					return vh.Failf("pcapng:malformed", "block at %d: option %d length %d overruns the block", off, code, ol)
				}
				for _, z := range opts[4+ol : 4+pl] {
					if z != 0 {
						return vh.Failf("pcapng:malformed", "block at %d: option %d padding is not zero", off, code)
					}
				}
				opts = opts[4+pl:]
				if code == 0 {
					sawEnd = true
					if len(opts) != 0 {
						return vh.Failf("pcapng:malformed", "block at %d: bytes after end-of-options", off)
					}
				}
			}
			if !sawEnd {
				return vh.Failf("pcapng:malformed", "block at %d: options not terminated by end-of-options", off)
			}
		}
		off += l
	}
	return nil
}

func workDir() string {
	if d := os.Getenv("VERIF_WORK"); d != "" {
		return d
	}
	return os.TempDir()
}

func libpcapDiff(c *Case, file []byte, pkts []written, ifaces []Iface) *vh.Failure {
	f, err := os.CreateTemp(workDir(), "c14-*.cap")
	if err != nil {
		return nil
	}
	name := f.Name()
	defer os.Remove(name)
	f.Write(file)
	f.Close()
	h, err := pcap.OpenOffline(name)
	if err != nil {
		return vh.Failf(c.Format+":libpcap:open", "libpcap cannot open the file gopacket wrote: %v", err)
	}
	defer h.Close()
	// libpcap reports DLT_ values, which differ numerically from the file's LINKTYPE_ values for a few types
	// (raw IP, null): compare by name
	if want := layers.LinkType(c.LinkType); c.Format != "pcapng" && h.LinkType().String() != want.String() {
		return vh.Failf(c.Format+":libpcap:linktype", "libpcap sees link type %v, written %v", h.LinkType(), want)
	}
	for i := range pkts {
		d, ci, err := h.ReadPacketData()
		if err != nil {
			return vh.Failf(c.Format+":libpcap:count", "libpcap stops after %d of %d packets: %v", i, len(pkts), err)
		}
		w := &pkts[i]
		if !bytes.Equal(d, w.data) || ci.CaptureLength != w.ci.CaptureLength || ci.Length != w.ci.Length {
			return vh.Failf(c.Format+":libpcap:packet", "packet %d read by libpcap differs: len %d caplen %d wirelen %d, written %d/%d/%d", i, len(d), ci.CaptureLength, ci.Length, len(w.data), w.ci.CaptureLength, w.ci.Length)
		}
		want := w.ci.Timestamp
		if c.Format == "pcap-us" {
			want = want.Truncate(time.Microsecond)
		}
		if c.Format == "pcapng" && ifaces[w.ci.InterfaceIndex].TsOffset != 0 {
			continue // judged by the read-back oracle (known finding ts-offset); libpcap applies the offset
		}
		if !ci.Timestamp.Equal(want) {
			return vh.Failf(c.Format+":libpcap:timestamp", "packet %d: libpcap reads timestamp %v, written %v", i, ci.Timestamp.UTC(), want)
		}
	}
	if _, _, err := h.ReadPacketData(); err != io.EOF {
		return vh.Failf(c.Format+":libpcap:extra", "libpcap finds more than the %d packets written (err=%v)", len(pkts), err)
	}
	return nil
}

// ---------------- generators ----------------

var optStrings = []string{"", "a", "ab", "abc", "abcd", "hello world", "x\x00y", "ünïcode"}

func genStr(t *rapid.T, l string) string {
	if rapid.IntRange(0, 2).Draw(t, l+"-pick") > 0 {
		return rapid.SampledFrom(optStrings).Draw(t, l)
	}
	return rapid.StringMatching(`[a-zA-Z0-9 _.-]{0,13}`).Draw(t, l)
}

func genIface(t *rapid.T, linkType int, snapMin int) Iface {
	i := Iface{Name: genStr(t, "ifname"), Comment: genStr(t, "ifcomment"), Description: genStr(t, "ifdesc"), Filter: genStr(t, "iffilter"), OS: genStr(t, "ifos"), LinkType: linkType}
	switch rapid.IntRange(0, 2).Draw(t, "snapkind") {
	case 0:
		i.Snap = 0
	case 1:
		i.Snap = uint32(snapMin)
	default:
		i.Snap = uint32(snapMin + rapid.IntRange(0, 70000).Draw(t, "snapextra"))
	}
	if rapid.IntRange(0, 5).Draw(t, "hasoffset") == 0 {
		i.TsOffset = uint64(rapid.IntRange(1, 1_000_000).Draw(t, "tsoffset"))
	}
	return i
}

func genOpts(t *rapid.T) *PktOpts {
	if rapid.IntRange(0, 2).Draw(t, "hasopts") > 0 {
		return nil
	}
	o := &PktOpts{}
	nc := rapid.IntRange(0, 3).Draw(t, "ncomments")
	for i := 0; i < nc; i++ {
		o.Comments = append(o.Comments, genStr(t, "comment"))
	}
	if rapid.Bool().Draw(t, "hasflags") {
		v := rapid.Uint32().Draw(t, "flags") & 0xFFFF03FF
		o.Flags = &v
	}
	nh := rapid.IntRange(0, 2).Draw(t, "nhashes")
	for i := 0; i < nh; i++ {
		o.Hashes = append(o.Hashes, append([]byte{byte(rapid.IntRange(0, 5).Draw(t, "hashalgo"))}, rapid.SliceOfN(rapid.Byte(), 0, 9).Draw(t, "hash")...))
	}
	if rapid.Bool().Draw(t, "hasdrop") {
		v := rapid.Uint64().Draw(t, "drop")
		o.DropCount = &v
	}
	if rapid.Bool().Draw(t, "haspid") {
		v := rapid.Uint64().Draw(t, "pid")
		o.PacketID = &v
	}
	if rapid.Bool().Draw(t, "hasqueue") {
		v := rapid.Uint32().Draw(t, "queue")
		o.Queue = &v
	}
	nv := rapid.IntRange(0, 2).Draw(t, "nverdicts")
	for i := 0; i < nv; i++ {
		o.Verdicts = append(o.Verdicts, append([]byte{byte(rapid.IntRange(0, 2).Draw(t, "vtype"))}, rapid.SliceOfN(rapid.Byte(), 0, 9).Draw(t, "verdict")...))
	}
	return o
}

func genCase(t *rapid.T) *Case {
	c := &Case{Format: rapid.SampledFrom([]string{"pcap-us", "pcap-ns", "pcapng", "pcapng"}).Draw(t, "format")}
	c.LinkType = rapid.SampledFrom([]int{1, 1, 101, 113, 105, 127, 0}).Draw(t, "linktype")
	np := rapid.IntRange(0, 12).Draw(t, "npackets")
	if rapid.IntRange(0, 9).Draw(t, "many") == 0 {
		np = rapid.IntRange(13, 40).Draw(t, "npackets2")
	}
	maxLen := 0
	var pk []*Pkt
	for i := 0; i < np; i++ {
		p := &Pkt{Salt: byte(i*17 + 3), ZeroCopy: rapid.Bool().Draw(t, "zc")}
		switch rapid.IntRange(0, 4).Draw(t, "lenkind") {
		case 0:
			p.Len = rapid.IntRange(0, 8).Draw(t, "len")
		case 1:
			p.Len = rapid.IntRange(1400, 1600).Draw(t, "len")
		default:
			p.Len = rapid.IntRange(0, 120).Draw(t, "len")
		}
		p.Wire = p.Len
		if rapid.IntRange(0, 3).Draw(t, "truncated") == 0 {
			p.Wire = p.Len + rapid.IntRange(1, 9000).Draw(t, "wireextra")
		}
		maxLen = max(maxLen, p.Len)
		pk = append(pk, p)
	}
	c.Libpcap = rapid.IntRange(0, 5).Draw(t, "libpcap") == 0
	if c.Libpcap && (c.LinkType == 101 || c.LinkType == 0) {
		// for link types whose DLT_ number differs from the LINKTYPE_ number the installed libpcap rejects a second
		// interface description ("an interface has a type 101 different from the type of the first interface"):
		// a libpcap quirk, so the differential uses link types with identical numbering
		c.LinkType = 1
	}
	for _, p := range pk {
		// timestamps: anywhere in [0, 2^32) s for pcap, [0, 2^63) ns for pcapng; libpcap cases stay below 2^31 s
		switch {
		case c.Libpcap:
			p.Sec = int64(rapid.Uint32Range(0, 1<<31-1).Draw(t, "sec"))
		case c.Format == "pcapng":
			p.Sec = rapid.Int64Range(0, (1<<63-1)/1_000_000_000-1).Draw(t, "sec")
		default:
			p.Sec = int64(rapid.Uint32().Draw(t, "sec"))
		}
		p.Nsec = int64(rapid.IntRange(0, 999_999_999).Draw(t, "nsec"))
		if rapid.IntRange(0, 3).Draw(t, "roundns") == 0 {
			p.Nsec = p.Nsec / 1000 * 1000
		}
	}
	if c.Format != "pcapng" {
		c.Snaplen = uint32(maxLen + rapid.SampledFrom([]int{0, 1, 100, 65535, 200000}).Draw(t, "snapextra"))
		for _, p := range pk {
			c.Events = append(c.Events, Ev{K: "packet", P: p})
		}
		c.AllCuts = false
		return c
	}
	c.Section = pcapgo.NgSectionInfo{Hardware: genStr(t, "hw"), OS: genStr(t, "os"), Application: genStr(t, "app"), Comment: genStr(t, "seccomment")}
	c.First = genIface(t, c.LinkType, maxLen)
	nif := 1
	for _, p := range pk {
		if nif < 4 && rapid.IntRange(0, 5).Draw(t, "addif") == 0 {
			lt := c.LinkType
			if !c.Libpcap && rapid.IntRange(0, 2).Draw(t, "mixedlt") == 0 {
				lt = rapid.SampledFrom([]int{1, 101, 113, 228}).Draw(t, "iflt")
			}
			i := genIface(t, lt, maxLen)
			c.Events = append(c.Events, Ev{K: "iface", I: &i})
			nif++
		}
		switch rapid.IntRange(0, 11).Draw(t, "extra") {
		case 0:
			c.Events = append(c.Events, Ev{K: "stats", StatIf: rapid.IntRange(0, 3).Draw(t, "statif"), Recv: rapid.Uint64().Draw(t, "recv"), Drop: rapid.Uint64().Draw(t, "dropc")})
		case 1:
			c.Events = append(c.Events, Ev{K: "dsb", Secret: rapid.SliceOfN(rapid.Byte(), 0, 40).Draw(t, "secret")})
		}
		p.Iface = rapid.IntRange(0, nif-1).Draw(t, "pktif")
		p.Opts = genOpts(t)
		c.Events = append(c.Events, Ev{K: "packet", P: p})
	}
	return c
}

func classify(c *Case, st *stats) (bool, []string) {
	cls := []string{"format:" + c.Format}
	np, odd, opts := 0, false, false
	for _, e := range c.Events {
		if e.K == "packet" {
			np++
			if e.P.Len%4 != 0 {
				odd = true
			}
			if e.P.Opts != nil {
				opts = true
				for _, cm := range e.P.Opts.Comments {
					if cm == "" {
						cls = append(cls, "empty-comment")
					}
				}
			}
		} else {
			cls = append(cls, "block:"+e.K)
		}
	}
	if st.libpcap {
		cls = append(cls, "libpcap-differential")
	}
	if st.exhaustive {
		cls = append(cls, "all-cut-offsets")
	}
	seen := map[string]bool{}
	var out []string
	for _, k := range cls {
		if !seen[k] {
			seen[k] = true
			out = append(out, k)
		}
	}
	return np >= 2 && (odd || opts) && st.cutsInside > 0, out
}

func TestFiles(t *testing.T) {
	rapid.Check(t, func(rt *rapid.T) {
		c := genCase(rt)
		if vh.Thorough() {
			c.AllCuts = rapid.IntRange(0, 3).Draw(rt, "allcuts") == 0
		}
		var st stats
		f := runCase(c, &st)
		if st.exhaustive && st.fileLen > 4096 {
			S.Class("all-cuts-on-large-file", 1)
		}
		nt, cls := classify(c, &st)
		js, _ := json.Marshal(c)
		S.Note(vh.Hash64(js), nt, cls...)
		S.Class("cut-offsets-tried", int64(st.cuts))
		S.Class("cut-offsets-inside-a-block", int64(st.cutsInside))
		if nt && len(js) < 1800 && S.WantSample() {
			S.Sample(c)
		}
		S.Check(rt, "TestFiles", c, f)
	})
}

// TestEveryCut: every byte offset of small files (exhaustive crash points).
func TestEveryCut(t *testing.T) {
	total := int64(0)
	rapid.Check(t, func(rt *rapid.T) {
		c := genCase(rt)
		// keep the file small: few, short packets
		n := 0
		var ev []Ev
		for _, e := range c.Events {
			if e.K == "packet" {
				if n >= 5 {
					continue
				}
				n++
				if e.P.Len > 70 {
					e.P.Len %= 70
					e.P.Wire = e.P.Len
				}
			}
			ev = append(ev, e)
		}
		c.Events = ev
		c.AllCuts, c.Libpcap = true, false
		var st stats
		f := runCase(c, &st)
		total += int64(st.cuts)
		nt, cls := classify(c, &st)
		js, _ := json.Marshal(c)
		S.Note(vh.Hash64(js), nt, cls...)
		S.Class("cut-offsets-tried", int64(st.cuts))
		S.Class("cut-offsets-inside-a-block", int64(st.cutsInside))
		S.Check(rt, "TestFiles", c, f)
	})
	S.Extra("every_cut_offsets_total", total)
	S.Extra("exhaustive", true)
}

func TestRegress(t *testing.T) {
	S.Regress(t, func(rf *vh.ReplayFile) (bool, *vh.Failure) {
		var c Case
		if err := json.Unmarshal(rf.Case, &c); err != nil {
			t.Fatal(err)
		}
		var st stats
		return true, runCase(&c, &st)
	})
}

var _ = filepath.Join
