// seedextract pulls seed inputs out of the gopacket tree: every []byte{...} composite literal made of
// constants in *_test.go files and every packet of the capture files shipped with the repository.
// Output: <out>/seeds.bin (uint32 length-prefixed records) and <out>/files/ (copies of capture files).
package main

import (
	"bytes"
	"encoding/binary"
	"flag"
	"fmt"
	"go/ast"
	"go/parser"
	"go/token"
	"io"
	"os"
	"path/filepath"
	"sort"
	"strconv"
	"strings"

	"github.com/gopacket/gopacket/pcapgo"
)

func lit(e ast.Expr) (byte, bool) {
	bl, ok := e.(*ast.BasicLit)
	if !ok {
		return 0, false
	}
	switch bl.Kind {
	case token.INT:
		v, err := strconv.ParseUint(bl.Value, 0, 8)
		return byte(v), err == nil
	case token.CHAR:
		s, err := strconv.Unquote(bl.Value)
		if err != nil || len(s) != 1 {
			return 0, false
		}
		return s[0], true
	}
	return 0, false
}

func main() {
	repo := flag.String("repo", "/repo", "gopacket tree")
	out := flag.String("out", "", "output directory")
	flag.Parse()
	os.MkdirAll(filepath.Join(*out, "files"), 0o755)
	seen := map[string]bool{}
	var seeds [][]byte
	add := func(b []byte) {
		if len(b) == 0 || len(b) > 70000 || seen[string(b)] {
			return
		}
		seen[string(b)] = true
		seeds = append(seeds, append([]byte(nil), b...))
	}
	var tests []string
	filepath.Walk(*repo, func(p string, info os.FileInfo, err error) error {
		if err == nil && !info.IsDir() && strings.HasSuffix(p, "_test.go") && !strings.Contains(p, "/.git/") {
			tests = append(tests, p)
		}
		return nil
	})
	sort.Strings(tests)
	fset := token.NewFileSet()
	for _, f := range tests {
		af, err := parser.ParseFile(fset, f, nil, parser.SkipObjectResolution)
		if err != nil {
			continue
		}
		ast.Inspect(af, func(n ast.Node) bool {
			cl, ok := n.(*ast.CompositeLit)
			if !ok {
				return true
			}
			at, ok := cl.Type.(*ast.ArrayType)
			if !ok || at.Len != nil {
				return true
			}
			if id, ok := at.Elt.(*ast.Ident); !ok || id.Name != "byte" {
				return true
			}
			b := make([]byte, 0, len(cl.Elts))
			for _, e := range cl.Elts {
				v, ok := lit(e)
				if !ok {
					return true
				}
				b = append(b, v)
			}
			if len(b) >= 4 {
				add(b)
			}
			return true
		})
	}
	nlit := len(seeds)
	// capture files
	var caps []string
	filepath.Walk(*repo, func(p string, info os.FileInfo, err error) error {
		if err != nil || info.IsDir() || strings.Contains(p, "/.git/") {
			return nil
		}
		switch filepath.Ext(p) {
		case ".pcap", ".pcapng", ".cap", ".snoop":
			caps = append(caps, p)
		}
		return nil
	})
	sort.Strings(caps)
	// refresh the file copies
	old, _ := filepath.Glob(filepath.Join(*out, "files", "*"))
	for _, o := range old {
		os.Remove(o)
	}
	for _, p := range caps {
		data, err := os.ReadFile(p)
		if err != nil || len(data) > 4<<20 {
			continue
		}
		rel, _ := filepath.Rel(*repo, p)
		os.WriteFile(filepath.Join(*out, "files", strings.ReplaceAll(rel, "/", "__")), data, 0o644)
		func() {
			defer func() { recover() }()
			if r, err := pcapgo.NewReader(bytes.NewReader(data)); err == nil {
				for i := 0; i < 2000; i++ {
					d, _, err := r.ReadPacketData()
					if err != nil {
						break
					}
					add(d)
				}
				return
			}
			if r, err := pcapgo.NewNgReader(bytes.NewReader(data), pcapgo.DefaultNgReaderOptions); err == nil {
				for i := 0; i < 2000; i++ {
					d, _, err := r.ReadPacketData()
					if err != nil {
						break
					}
					add(d)
				}
			}
		}()
	}
	var buf bytes.Buffer
	for _, s := range seeds {
		var l [4]byte
		binary.LittleEndian.PutUint32(l[:], uint32(len(s)))
		buf.Write(l[:])
		buf.Write(s)
	}
	path := filepath.Join(*out, "seeds.bin")
	oldb, _ := os.ReadFile(path)
	if !bytes.Equal(oldb, buf.Bytes()) {
		if err := os.WriteFile(path, buf.Bytes(), 0o644); err != nil {
			fmt.Fprintln(os.Stderr, err)
			os.Exit(1)
		}
	}
	fmt.Printf("corpus: %d seeds (%d literals, %d from %d capture files)\n", len(seeds), nlit, len(seeds)-nlit, len(caps))
	_ = io.EOF
}
