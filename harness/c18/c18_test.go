// Package c18 checks property C18: the serialize buffer holds exactly what was written,
// in position order (DESIGN.md §5 C18). Oracle: a byte-slice reference model.
package c18

import (
	"bytes"
	"errors"
	"fmt"
	"testing"
	"unsafe"

	"github.com/gopacket/gopacket"
	"pgregory.net/rapid"

	"verifharness/internal/vh"
)

var S = vh.New("C18")

func TestMain(m *testing.M) { vh.Main(m, S) }

// Op is one buffer operation. K ∈ prepend, append, clear, push, rewrite.
type Op struct {
	K string `json:"k"`
	N int    `json:"n,omitempty"` // size / layer type / index of the returned slice to rewrite
}

// Stub is a fake serializable layer used for the stacking helper.
type Stub struct {
	Pre, App  int
	Type      int
	Fail      bool // return an error
	FailAfter bool // ... after having written its bytes
}

// Case is the replayable unit.
type Case struct {
	Kind   string `json:"kind"` // "ops" | "stack"
	Hinted bool   `json:"hinted"`
	HintP  int    `json:"hint_p"`
	HintA  int    `json:"hint_a"`
	Ops    []Op   `json:"ops,omitempty"`
	Stubs  []Stub `json:"stubs,omitempty"`
	Pre    []Op   `json:"pre,omitempty"` // ops executed on the buffer before SerializeLayers (stack kind)
}

func newBuf(c *Case) gopacket.SerializeBuffer {
	if c.Hinted {
		return gopacket.NewSerializeBufferExpectedSize(c.HintP, c.HintA)
	}
	return gopacket.NewSerializeBuffer()
}

type region struct {
	s     []byte
	a, b  int // virtual coordinates in the model
	epoch int
	front bool
	opIdx int
	moved bool
}

type model struct {
	lo      int    // virtual coordinate of content[0]
	content []byte // reference contents
	layers  []gopacket.LayerType
	epoch   int
	regions []region
	pat     byte
}

func (m *model) nextPat() byte {
	m.pat++
	if m.pat == 0 {
		m.pat = 1
	}
	return m.pat
}

func aliasOffset(s, B []byte) (int, bool) {
	if len(s) == 0 || len(B) == 0 {
		return 0, false
	}
	ps := uintptr(unsafe.Pointer(&s[0]))
	pb := uintptr(unsafe.Pointer(&B[0]))
	if ps >= pb && ps+uintptr(len(s)) <= pb+uintptr(len(B)) {
		return int(ps - pb), true
	}
	return 0, false
}

type opsInfo struct {
	growthAfterWrite bool
	clearThenWrite   bool
	rewritesLive     int
	rewritesStale    int
}

func layersEqual(a, b []gopacket.LayerType) bool {
	if len(a) != len(b) {
		return false
	}
	for i := range a {
		if a[i] != b[i] {
			return false
		}
	}
	return true
}

// applyOps runs ops on buf against the model and checks after every step.
func applyOps(buf gopacket.SerializeBuffer, m *model, ops []Op, info *opsInfo) *vh.Failure {
	cleared := false
	for i, op := range ops {
		switch op.K {
		case "prepend", "append":
			var s []byte
			var err error
			if op.K == "prepend" {
				s, err = buf.PrependBytes(op.N)
			} else {
				s, err = buf.AppendBytes(op.N)
			}
			if err != nil {
				return vh.Failf("error", "op %d %v: unexpected error %v", i, op, err)
			}
			if len(s) != op.N {
				return vh.Failf("length", "op %d %v: returned slice has len %d", i, op, len(s))
			}
			p := m.nextPat()
			for j := range s {
				s[j] = p + byte(j)*31
			}
			w := append([]byte(nil), s...)
			r := region{s: s, epoch: m.epoch, front: op.K == "prepend", opIdx: i}
			if op.K == "prepend" {
				m.content = append(w, m.content...)
				m.lo -= op.N
				r.a, r.b = m.lo, m.lo+op.N
			} else {
				r.a = m.lo + len(m.content)
				r.b = r.a + op.N
				m.content = append(m.content, w...)
			}
			m.regions = append(m.regions, r)
			if cleared && op.N > 0 {
				info.clearThenWrite = true
			}
			// window check: the returned slice must be the front/back window of Bytes()
			B := buf.Bytes()
			if op.N > 0 {
				off, ok := aliasOffset(s, B)
				want := 0
				if op.K == "append" {
					want = len(B) - op.N
				}
				if !ok || off != want {
					return vh.Failf("window", "op %d %v: returned slice is not the %s window of Bytes() (alias=%v off=%d want=%d)", i, op, op.K, ok, off, want)
				}
			}
		case "clear":
			if err := buf.Clear(); err != nil {
				return vh.Failf("error", "op %d clear: %v", i, err)
			}
			m.content = m.content[:0]
			m.lo = 0
			m.layers = m.layers[:0]
			m.epoch++
			cleared = true
		case "push":
			buf.PushLayer(gopacket.LayerType(op.N))
			m.layers = append(m.layers, gopacket.LayerType(op.N))
		case "rewrite":
			if len(m.regions) == 0 {
				continue
			}
			r := &m.regions[op.N%len(m.regions)]
			if r.epoch != m.epoch || len(r.s) == 0 {
				continue // invalidated by Clear: not a write the property allows
			}
			B := buf.Bytes()
			off, live := aliasOffset(r.s, B)
			p := m.nextPat()
			if live {
				if off != r.a-m.lo {
					return vh.Failf("window", "op %d rewrite: slice from op %d aliases Bytes() at %d, model position %d", i, r.opIdx, off, r.a-m.lo)
				}
				for j := range r.s {
					r.s[j] = p ^ byte(j)
				}
				copy(m.content[r.a-m.lo:], r.s)
				info.rewritesLive++
			} else {
				// the buffer grew and moved: the old slice is detached; writing to it must not be visible
				for j := range r.s {
					r.s[j] = p ^ byte(j)
				}
				info.rewritesStale++
			}
		}
		// growth observation: a live-epoch region that no longer aliases
		B := buf.Bytes()
		for k := range m.regions {
			r := &m.regions[k]
			if r.epoch == m.epoch && len(r.s) > 0 && !r.moved && r.opIdx < i {
				if _, ok := aliasOffset(r.s, B); !ok {
					r.moved = true
					info.growthAfterWrite = true
				}
			}
		}
		if !bytes.Equal(B, m.content) {
			return vh.Failf("contents", "after op %d %v: Bytes()=%x model=%x", i, op, trunc(B), trunc(m.content))
		}
		if !layersEqual(buf.Layers(), m.layers) {
			return vh.Failf("layers", "after op %d %v: Layers()=%v model=%v", i, op, buf.Layers(), m.layers)
		}
	}
	return nil
}

func trunc(b []byte) []byte {
	if len(b) > 96 {
		return b[:96]
	}
	return b
}

type stubLayer struct {
	st    Stub
	idx   int
	calls *[]int
}

var errStub = errors.New("stub failure")

func (s *stubLayer) LayerType() gopacket.LayerType { return gopacket.LayerType(s.st.Type) }
func (s *stubLayer) SerializeTo(b gopacket.SerializeBuffer, _ gopacket.SerializeOptions) error {
	*s.calls = append(*s.calls, s.idx)
	if s.st.Fail && !s.st.FailAfter {
		return errStub
	}
	p, err := b.PrependBytes(s.st.Pre)
	if err != nil {
		return err
	}
	for i := range p {
		p[i] = byte(0x10 + s.idx)
	}
	a, err := b.AppendBytes(s.st.App)
	if err != nil {
		return err
	}
	for i := range a {
		a[i] = byte(0x80 + s.idx)
	}
	if s.st.Fail {
		return errStub
	}
	return nil
}

func runCase(c *Case) (f *vh.Failure, info opsInfo) {
	pv, stack := vh.Recover(func() {
		buf := newBuf(c)
		m := &model{}
		if len(buf.Bytes()) != 0 || len(buf.Layers()) != 0 {
			f = vh.Failf("initial", "new buffer not empty: %x %v", buf.Bytes(), buf.Layers())
			return
		}
		switch c.Kind {
		case "ops":
			f = applyOps(buf, m, c.Ops, &info)
		case "stack":
			if f = applyOps(buf, m, c.Pre, &info); f != nil {
				return
			}
			var calls []int
			var ls []gopacket.SerializableLayer
			for i, st := range c.Stubs {
				ls = append(ls, &stubLayer{st: st, idx: i, calls: &calls})
			}
			err := gopacket.SerializeLayers(buf, gopacket.SerializeOptions{}, ls...)
			// model
			var wantCalls []int
			var front, back []byte
			var wantLayers []gopacket.LayerType
			wantErr := false
			for i := len(c.Stubs) - 1; i >= 0; i-- {
				st := c.Stubs[i]
				wantCalls = append(wantCalls, i)
				if st.Fail && !st.FailAfter {
					wantErr = true
					break
				}
				front = append(bytes.Repeat([]byte{byte(0x10 + i)}, st.Pre), front...)
				back = append(back, bytes.Repeat([]byte{byte(0x80 + i)}, st.App)...)
				if st.Fail {
					wantErr = true
					break
				}
				wantLayers = append(wantLayers, gopacket.LayerType(st.Type))
			}
			want := append(front, back...)
			if fmt.Sprint(calls) != fmt.Sprint(wantCalls) {
				f = vh.Failf("stack-order", "SerializeTo call order %v, want %v", calls, wantCalls)
				return
			}
			if (err != nil) != wantErr {
				f = vh.Failf("stack-error", "SerializeLayers err=%v, want error=%v", err, wantErr)
				return
			}
			if !bytes.Equal(buf.Bytes(), want) {
				f = vh.Failf("stack-bytes", "SerializeLayers bytes %x want %x", trunc(buf.Bytes()), trunc(want))
				return
			}
			if !layersEqual(buf.Layers(), wantLayers) {
				f = vh.Failf("stack-layers", "Layers() %v want %v", buf.Layers(), wantLayers)
				return
			}
		}
	})
	if pv != nil {
		fn, where := vh.InnermostRepoFunc(stack)
		return vh.Failf("panic:"+fn, "panic %v at %s", pv, where), info
	}
	return f, info
}

var sizes = []int{0, 1, 2, 3, 7, 8, 63, 64, 65, 1500, 5000}

func genOps(t *rapid.T, maxLen int, label string) []Op {
	n := rapid.IntRange(0, maxLen).Draw(t, label+"-n")
	ops := make([]Op, 0, n)
	for i := 0; i < n; i++ {
		k := rapid.SampledFrom([]string{"prepend", "prepend", "prepend", "append", "append", "append", "clear", "push", "rewrite", "rewrite"}).Draw(t, "op")
		op := Op{K: k}
		switch k {
		case "prepend", "append":
			if rapid.IntRange(0, 9).Draw(t, "sizekind") < 8 {
				op.N = rapid.SampledFrom(sizes).Draw(t, "size")
			} else {
				op.N = rapid.IntRange(0, 9000).Draw(t, "size")
			}
		case "push":
			op.N = rapid.IntRange(0, 300).Draw(t, "lt")
		case "rewrite":
			op.N = rapid.IntRange(0, 40).Draw(t, "idx")
		}
		ops = append(ops, op)
	}
	return ops
}

func genCase(t *rapid.T) *Case {
	c := &Case{}
	c.Hinted = rapid.Bool().Draw(t, "hinted")
	if c.Hinted {
		c.HintP = rapid.SampledFrom([]int{0, 1, 5, 64, 1500}).Draw(t, "hintp")
		c.HintA = rapid.SampledFrom([]int{0, 1, 5, 64, 1500}).Draw(t, "hinta")
	}
	if rapid.IntRange(0, 3).Draw(t, "kind") == 0 {
		c.Kind = "stack"
		c.Pre = genOps(t, 6, "pre")
		n := rapid.IntRange(0, 6).Draw(t, "nstubs")
		for i := 0; i < n; i++ {
			st := Stub{
				Pre:  rapid.SampledFrom([]int{0, 1, 4, 14, 20, 60, 1500}).Draw(t, "pre"),
				App:  rapid.SampledFrom([]int{0, 0, 1, 4, 46}).Draw(t, "app"),
				Type: rapid.IntRange(0, 300).Draw(t, "type"),
			}
			if rapid.IntRange(0, 7).Draw(t, "fail") == 0 {
				st.Fail = true
				st.FailAfter = rapid.Bool().Draw(t, "failafter")
			}
			c.Stubs = append(c.Stubs, st)
		}
	} else {
		c.Kind = "ops"
		c.Ops = genOps(t, 40, "ops")
	}
	return c
}

func note(c *Case, info opsInfo) {
	nt := info.growthAfterWrite || info.clearThenWrite
	var classes []string
	if info.growthAfterWrite {
		classes = append(classes, "growth-after-write")
	}
	if info.clearThenWrite {
		classes = append(classes, "clear-then-write")
	}
	if info.rewritesLive > 0 {
		classes = append(classes, "rewrite-live")
	}
	if info.rewritesStale > 0 {
		classes = append(classes, "rewrite-detached")
	}
	if c.Kind == "stack" {
		classes = append(classes, "stack")
		fails := false
		for _, s := range c.Stubs {
			fails = fails || s.Fail
		}
		if fails {
			classes = append(classes, "stack-with-error")
		}
		if len(c.Stubs) >= 2 {
			nt = true
		}
	}
	if c.Hinted {
		classes = append(classes, "hinted")
	}
	S.Note(vh.Hash64(fmt.Sprintf("%+v", *c)), nt, classes...)
	if nt && S.WantSample() {
		S.Sample(c)
	}
}

// TestRandom: rapid-generated operation sequences against the reference model.
func TestRandom(t *testing.T) {
	rapid.Check(t, func(rt *rapid.T) {
		c := genCase(rt)
		f, info := runCase(c)
		note(c, info)
		S.Check(rt, "TestRandom", c, f)
	})
}

// TestExhaustive enumerates every sequence up to depth D over {prepend,append}×{0,1,3,8} ∪ {clear}
// from four initial hints. D=5 (quick), 7 (thorough); VERIF_SHARD=i/n splits on the first symbol.
func TestExhaustive(t *testing.T) {
	depth := 5
	if vh.Thorough() {
		depth = 7
	}
	var alphabet []Op
	for _, k := range []string{"prepend", "append"} {
		for _, n := range []int{0, 1, 3, 8} {
			alphabet = append(alphabet, Op{K: k, N: n})
		}
	}
	alphabet = append(alphabet, Op{K: "clear"})
	hints := []Case{{Kind: "ops"}, {Kind: "ops", Hinted: true, HintP: 1, HintA: 1}, {Kind: "ops", Hinted: true, HintP: 8, HintA: 3}, {Kind: "ops", Hinted: true, HintP: 0, HintA: 64}}
	shard, nshard := vh.Shard()
	total := int64(0)
	seq := make([]Op, 0, depth)
	var rec func(d int)
	rec = func(d int) {
		if t.Failed() {
			return
		}
		if d > 0 {
			for _, h := range hints {
				c := h
				c.Ops = append([]Op(nil), seq...)
				f, info := runCase(&c)
				total++
				note(&c, info)
				S.Check(t, "TestExhaustive", &c, f)
			}
		}
		if d == depth {
			return
		}
		for i, a := range alphabet {
			if d == 0 && i%nshard != shard {
				continue
			}
			seq = append(seq, a)
			rec(d + 1)
			seq = seq[:len(seq)-1]
		}
	}
	rec(0)
	S.Extra("exhaustive_depth", depth)
	S.Extra("exhaustive_sequences", total)
	S.Extra("exhaustive", true)
}

// TestRegress replays committed regression cases and the --replay file.
func TestRegress(t *testing.T) {
	S.Regress(t, func(rf *vh.ReplayFile) (bool, *vh.Failure) {
		var c Case
		if err := jsonUnmarshal(rf.Case, &c); err != nil {
			t.Fatalf("bad case: %v", err)
		}
		f, _ := runCase(&c)
		return true, f
	})
}
