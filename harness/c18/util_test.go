package c18

import "encoding/json"

func jsonUnmarshal(b []byte, v any) error { return json.Unmarshal(b, v) }
