package c01

import (
	"testing"

	"verifharness/internal/acc"
	"verifharness/internal/corpus"
	"verifharness/internal/registry"
)

func fullProgram() []acc.Step {
	var full []acc.Step
	for _, op := range acc.ReadOnlyOps {
		switch op {
		case "Layer", "LayerClass":
			full = append(full, acc.Step{Op: op, Arg: 1})
		case "LayerString", "LayerDump", "LayerGoString":
			for i := 0; i < 8; i++ {
				full = append(full, acc.Step{Op: op, Arg: i})
			}
		default:
			full = append(full, acc.Step{Op: op})
		}
	}
	return full
}

// FuzzPacket is the coverage-guided entry (thorough tier): selector bytes pick first layer and option set, every
// read-only accessor runs on the result. The oracle is runCase (nothing escapes, error-layer invariants).
func FuzzPacket(f *testing.F) {
	seeds := corpus.Seeds()
	for i := 0; i < len(seeds); i += 11 {
		if len(seeds[i]) < 600 {
			f.Add(byte(i), byte(i>>3), seeds[i])
		}
	}
	fl := registry.FirstLayers()
	prog := fullProgram()
	f.Fuzz(func(t *testing.T, sel, opts byte, d []byte) {
		if len(d) > 1<<16 {
			return
		}
		lt := fl[(int(sel)+int(opts>>4)*256)%len(fl)]
		c := &Case{LT: int(lt), Name: lt.String(), Data: d, Opts: int(opts) % 16, Prog: prog}
		fail, _ := runCase(c)
		S.Check(t, "TestDecode", c, fail)
	})
}
