package c01

import (
	"testing"
	"time"

	"github.com/gopacket/gopacket"

	"verifharness/internal/corpus"
	"verifharness/internal/inst"
	"verifharness/internal/vh"
)

// TestLayerSweep: every layer instance of the corpus (and of reflection-filled serialized layers) decoded as a packet
// of its own type under systematic variants (truncations, boundary bytes, lengths one off, closed last elements -
// see internal/inst), then rendered: the renderers of option lists (String, Dump) parse lazily and are the part of
// "later read-only use never panics" that random whole-packet mutation reaches least.
func TestLayerSweep(t *testing.T) {
	if len(corpus.Seeds()) == 0 {
		t.Skip("no corpus")
	}
	per := 4
	if vh.Thorough() {
		per = 40
	}
	ins := inst.Collect(96, per)
	sh, nsh := vh.Shard()
	prog := fullProgram()
	total := 0
	for i := sh; i < len(ins); i += nsh {
		in := ins[i]
		base := &Case{LT: int(in.LT), Name: in.LT.String(), Data: in.Data, Opts: i % 16, Prog: prog}
		S.Current("TestDecode", base)
		var bad []byte
		n := 0
		S.Guard("TestDecode", "sweep:"+in.Type, base, 120*time.Second, func() {
			var cur []byte
			pv, _ := vh.Recover(func() {
				inst.Variants(in.Data, func(d []byte) {
					cur = d
					n++
					p := gopacket.NewPacket(d, in.LT, base.options())
					if n%2 == 0 {
						_ = p.String()
					} else {
						_ = p.Dump()
					}
					if pp, ok := p.(gopacket.PooledPacket); ok {
						pp.Dispose()
					}
				})
			})
			if pv != nil {
				bad = append([]byte(nil), cur...)
			}
		})
		total += n
		S.Note(vh.Hash64("sweep", in.Type, in.Data), true, "src:layer-sweep")
		if bad != nil {
			check(t, &Case{LT: int(in.LT), Name: in.LT.String(), Data: bad, Opts: base.Opts, Prog: prog}, "layer-sweep")
			if t.Failed() {
				return
			}
		}
	}
	S.Class("layer-sweep-variants", int64(total))
	S.Extra("layer_sweep_instances", len(ins))
}
