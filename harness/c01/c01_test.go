// Package c01 checks property C01: packet decoding is total and crash-free with recovery on, and decode
// problems are reported through the error layer (DESIGN.md §5 C01).
package c01

import (
	"encoding/json"
	"fmt"
	"reflect"
	"testing"
	"time"

	"github.com/gopacket/gopacket"
	"pgregory.net/rapid"

	"verifharness/internal/acc"
	"verifharness/internal/corpus"
	"verifharness/internal/gen"
	"verifharness/internal/registry"
	"verifharness/internal/vh"
)

var S = vh.New("C01")

func TestMain(m *testing.M) { vh.Main(m, S) }

type Case struct {
	LT   int        `json:"lt"`
	Name string     `json:"name"`
	Data []byte     `json:"data"`
	Opts int        `json:"opts"` // bit0 Lazy, bit1 NoCopy, bit2 Pool, bit3 DecodeStreamsAsDatagrams
	Prog []acc.Step `json:"prog"`
}

func (c *Case) options() gopacket.DecodeOptions {
	return gopacket.DecodeOptions{Lazy: c.Opts&1 != 0, NoCopy: c.Opts&2 != 0, Pool: c.Opts&4 != 0, DecodeStreamsAsDatagrams: c.Opts&8 != 0}
}

// in-place decoders by the layer type they produce (for the error-reporting differential)
var inPlace = func() map[gopacket.LayerType]registry.Type {
	m := map[gopacket.LayerType]registry.Type{}
	for _, t := range registry.DecodingLayers() {
		v := t.New()
		l, ok := v.(gopacket.Layer)
		if !ok {
			continue
		}
		var lt gopacket.LayerType
		if pv, _ := vh.Recover(func() { lt = l.LayerType() }); pv != nil {
			continue
		}
		// only when the type decodes exactly its own layer type
		dl := v.(gopacket.DecodingLayer)
		var can bool
		vh.Recover(func() { can = dl.CanDecode().Contains(lt) })
		if can {
			if _, dup := m[lt]; !dup {
				m[lt] = t
			}
		}
	}
	return m
}()

type info struct {
	layers   int
	hasError bool
	leftover string
}

func runCase(c *Case) (f *vh.Failure, in info) {
	S.Guard("TestDecode", c.Name, c, 20*time.Second, func() { f, in = runCase1(c) })
	return
}

func isFailureLayer(l gopacket.Layer) bool {
	if l.LayerType() == gopacket.LayerTypeDecodeFailure {
		return true
	}
	_, ok := l.(gopacket.ErrorLayer)
	return ok
}

func runCase1(c *Case) (f *vh.Failure, in info) {
	lt := gopacket.LayerType(c.LT)
	data := append([]byte(nil), c.Data...)
	var p gopacket.Packet
	if pv, stack := vh.Recover(func() { p = gopacket.NewPacket(data, lt, c.options()) }); pv != nil {
		fn, where := vh.InnermostRepoFunc(stack)
		return vh.Failf("panic:decode:"+fn, "NewPacket(%d bytes, %v, opts %04b) panicked: %v at %s", len(data), lt, c.Opts, pv, where), in
	}
	if p == nil {
		return vh.Failf("nil-packet", "NewPacket returned nil"), in
	}
	if _, f := acc.Run(p, c.Prog); f != nil {
		f.Msg = fmt.Sprintf("%v on %d bytes, opts %04b: %s", lt, len(data), c.Opts, f.Msg)
		return f, in
	}
	// error-layer invariants, evaluated after Layers()
	var ls []gopacket.Layer
	var el gopacket.ErrorLayer
	if pv, stack := vh.Recover(func() { ls = p.Layers(); el = p.ErrorLayer() }); pv != nil {
		fn, where := vh.InnermostRepoFunc(stack)
		return vh.Failf("panic:Layers:"+fn, "Layers()/ErrorLayer() panicked: %v at %s", pv, where), in
	}
	in.layers = len(ls)
	nFail := 0
	for i, l := range ls {
		if l == nil {
			return vh.Failf("error-layer:nil-layer", "layer %d is nil", i), in
		}
		if isFailureLayer(l) {
			nFail++
			if i != len(ls)-1 {
				return vh.Failf("error-layer:not-last", "layer %d of %d (%v) is a decode failure but not the last layer", i, len(ls), l.LayerType()), in
			}
		}
	}
	in.hasError = el != nil
	if (el != nil) != (nFail > 0) {
		return vh.Failf("error-layer:iff", "ErrorLayer()!=nil is %v but %d failure layers are listed (first layer %v, %d bytes)", el != nil, nFail, lt, len(data)), in
	}
	if el != nil && any(ls[len(ls)-1]) != any(el) {
		return vh.Failf("error-layer:identity", "ErrorLayer() is not the last element of Layers()"), in
	}
	if len(data) > 0 && len(ls) == 0 && el == nil && c.Opts&1 == 0 {
		return vh.Failf("error-layer:silent-nothing", "%d bytes decoded as %v gave no layer and no error layer", len(data), lt), in
	}
	if el == nil && len(ls) > 0 {
		last := ls[len(ls)-1]
		if n := len(last.LayerPayload()); n > 0 && last.LayerType() != gopacket.LayerTypePayload {
			in.leftover = last.LayerType().String() // counted, not judged (DESIGN.md C01)
		}
	}
	// errors are reported: if the in-place decoder of the first layer rejects the bytes, the packet must say so
	if t, ok := inPlace[lt]; ok && len(data) > 0 {
		var derr error
		pv, _ := vh.Recover(func() {
			derr = t.New().(gopacket.DecodingLayer).DecodeFromBytes(append([]byte(nil), c.Data...), gopacket.NilDecodeFeedback)
		})
		// only when the registered decoder really produced this struct type as the first layer (some registered
		// decoders are dispatchers that pick one of several structs from the first bytes: AGUE, OSPF, IGMP)
		sameType := len(ls) > 0 && baseType(ls[0]) == baseType(t.New())
		if (derr != nil || pv != nil) && el == nil && sameType {
			return vh.Failf("error-not-reported:"+lt.String(), "%s.DecodeFromBytes rejects the %d bytes (err=%v panic=%v) but NewPacket(…, %v) has no error layer; layers: %d", t.Name, len(data), derr, pv, lt, len(ls)), in
		}
	}
	if pp, ok := p.(gopacket.PooledPacket); ok {
		if pv, stack := vh.Recover(func() { pp.Dispose() }); pv != nil {
			fn, _ := vh.InnermostRepoFunc(stack)
			return vh.Failf("panic:Dispose:"+fn, "Dispose panicked: %v", pv), in
		}
	}
	return nil, in
}

func baseType(v any) reflect.Type {
	t := reflect.TypeOf(v)
	for t != nil && t.Kind() == reflect.Ptr {
		t = t.Elem()
	}
	return t
}

func check(t vh.TB, c *Case, src string) {
	S.Current("TestDecode", c)
	f, in := runCase(c)
	cls := []string{"src:" + src, fmt.Sprintf("opts:%04b", c.Opts)}
	if in.leftover != "" {
		cls = append(cls, "leftover-payload-without-error:"+in.leftover)
	}
	if in.hasError {
		cls = append(cls, "has-error-layer")
	}
	nt := in.layers >= 2
	S.Note(vh.Hash64(c.LT, c.Data, c.Opts, fmt.Sprint(c.Prog)), nt, cls...)
	if nt && len(c.Data) < 160 && S.WantSample() {
		S.Sample(c)
	}
	S.Check(t, "TestDecode", c, f)
}

func TestDecode(t *testing.T) {
	fl := registry.FirstLayers()
	rapid.Check(t, func(rt *rapid.T) {
		lt := fl[rapid.IntRange(0, len(fl)-1).Draw(rt, "first")]
		c := &Case{LT: int(lt), Name: lt.String(), Opts: rapid.IntRange(0, 15).Draw(rt, "opts")}
		var src string
		c.Data, src = gen.Bytes(rt)
		if rapid.IntRange(0, 7).Draw(rt, "suffix") == 0 {
			if b, slt, ok := gen.StackSuffix(rt); ok {
				c.LT, c.Name, c.Data, src = int(slt), slt.String(), b, "stack-suffix"
			}
		}
		c.Prog = acc.Gen(rt, acc.ReadOnlyOps, 12)
		check(rt, c, src)
	})
}

// TestSeeds: corpus seeds with their natural first layers, every option set, a fixed full accessor program.
func TestSeeds(t *testing.T) {
	seeds := corpus.Seeds()
	if len(seeds) == 0 {
		t.Skip("no corpus")
	}
	full := fullProgram()
	names := []string{"Ethernet", "IPv4", "IPv6", "TCP", "UDP", "DNS", "Dot11", "RadioTap", "LinuxSLL", "SCTP", "PPP", "Loopback", "USB", "SFlow", "GRE", "ICMPv6", "OSPF", "LLC", "LinkLayerDiscovery", "CiscoDiscovery"}
	var firsts []gopacket.LayerType
	for _, lt := range registry.FirstLayers() {
		for _, n := range names {
			if lt.String() == n {
				firsts = append(firsts, lt)
			}
		}
	}
	sh, nsh := vh.Shard()
	step := 16
	if vh.Thorough() {
		step = 1
	}
	n := 0
	for i := sh * step; i < len(seeds); i += step * nsh {
		for k, lt := range firsts {
			c := &Case{LT: int(lt), Name: lt.String(), Data: seeds[i], Opts: (i + k) % 16, Prog: full}
			check(t, c, "corpus")
			n++
		}
		if t.Failed() {
			return
		}
	}
	S.Extra("seed_cases_total", n)
}

func TestRegress(t *testing.T) {
	S.Regress(t, func(rf *vh.ReplayFile) (bool, *vh.Failure) {
		var c Case
		if err := json.Unmarshal(rf.Case, &c); err != nil {
			t.Fatal(err)
		}
		if rf.Test == "TestChaos" {
			f, _ := runChaos(&c)
			return true, f
		}
		f, _ := runCase(&c)
		return true, f
	})
}
