package c01

// A registered decoder that fails in every way a decoder can (DESIGN.md §9.3): the recovery machinery of
// NewPacket / lazy decoding has to turn each of them into an error layer, whatever the built-in decoders do.
// Each input byte is a command for one decode step; the expected outcome is computed from the bytes alone.

import (
	"errors"
	"fmt"
	"testing"

	"github.com/gopacket/gopacket"
	"github.com/gopacket/gopacket/layers"
	"pgregory.net/rapid"

	"verifharness/internal/acc"
	"verifharness/internal/vh"
)

type chaosLayer struct {
	contents, payload []byte
}

var layerTypeChaos gopacket.LayerType

func init() {
	layerTypeChaos = gopacket.RegisterLayerType(1987, gopacket.LayerTypeMetadata{Name: "VerifChaos", Decoder: gopacket.DecodeFunc(decodeChaos)})
}

func (c *chaosLayer) LayerType() gopacket.LayerType { return layerTypeChaos }
func (c *chaosLayer) LayerContents() []byte         { return c.contents }
func (c *chaosLayer) LayerPayload() []byte          { return c.payload }

const (
	chaosNext       = iota // add a layer, continue with the next command
	chaosErr               // return an error, no layer added
	chaosLayerErr          // add a layer, then return an error
	chaosPanicIndex        // runtime panic (index out of range), no layer added
	chaosLayerPanic        // add a layer, then panic with a string
	chaosPayload           // add a layer, hand the rest to the Payload decoder
	chaosEthernet          // add a layer, hand the rest to the Ethernet decoder
	chaosPanicError        // panic with an error value
	chaosCommands
)

func decodeChaos(data []byte, p gopacket.PacketBuilder) error {
	if len(data) == 0 {
		return errors.New("chaos: empty")
	}
	cmd := data[0] % chaosCommands
	l := &chaosLayer{contents: data[:1], payload: data[1:]}
	switch cmd {
	case chaosNext:
		p.AddLayer(l)
		return p.NextDecoder(layerTypeChaos)
	case chaosErr:
		return errors.New("chaos: refused")
	case chaosLayerErr:
		p.AddLayer(l)
		return errors.New("chaos: refused after adding a layer")
	case chaosPanicIndex:
		_ = data[len(data)+int(cmd)]
	case chaosLayerPanic:
		p.AddLayer(l)
		panic("chaos: panic after adding a layer")
	case chaosPayload:
		p.AddLayer(l)
		return p.NextDecoder(gopacket.LayerTypePayload)
	case chaosEthernet:
		p.AddLayer(l)
		return p.NextDecoder(layers.LayerTypeEthernet)
	default:
		panic(fmt.Errorf("chaos: error value %d", cmd))
	}
	return nil
}

// chaosExpect walks the commands: number of chaos layers that must be listed and whether a failure must be reported.
// known is false when the outcome depends on a built-in decoder (Ethernet hand-over).
func chaosExpect(data []byte) (nChaos int, mustFail, known bool) {
	if len(data) == 0 {
		return 0, false, false // an empty input reaches the decoder only when decoding eagerly
	}
	for i := 0; i < len(data); i++ {
		switch data[i] % chaosCommands {
		case chaosNext:
			nChaos++
			if i == len(data)-1 {
				return nChaos, false, true // NextDecoder with an empty payload ends decoding quietly
			}
		case chaosErr, chaosPanicIndex, chaosPanicError:
			return nChaos, true, true
		case chaosLayerErr, chaosLayerPanic:
			return nChaos + 1, true, true
		case chaosPayload:
			return nChaos + 1, false, true
		case chaosEthernet:
			return nChaos + 1, false, false
		}
	}
	return nChaos, false, true
}

func runChaos(c *Case) (f *vh.Failure, in info) {
	f, in = runCase(c) // the general invariants: nothing escapes, error layer iff failure layer, failure last
	if f != nil {
		return
	}
	p := gopacket.NewPacket(append([]byte(nil), c.Data...), layerTypeChaos, c.options())
	var ls []gopacket.Layer
	var el gopacket.ErrorLayer
	if pv, _ := vh.Recover(func() { ls = p.Layers(); el = p.ErrorLayer() }); pv != nil {
		return vh.Failf("panic:Layers:chaos", "Layers() panicked although recovery is enabled: %v", pv), in
	}
	n, mustFail, known := chaosExpect(c.Data)
	got := 0
	for _, l := range ls {
		if l.LayerType() == layerTypeChaos {
			got++
		}
	}
	if got != n {
		return vh.Failf("chaos:layers", "commands %v: %d chaos layers listed, want %d (opts %04b)", c.Data, got, n, c.Opts), in
	}
	if known && mustFail != (el != nil) {
		return vh.Failf("chaos:error-layer", "commands %v: a decoder failure is expected=%v but ErrorLayer()!=nil is %v (opts %04b)", c.Data, mustFail, el != nil, c.Opts), in
	}
	if !known && el == nil && len(ls) > 0 && len(ls[len(ls)-1].LayerPayload()) > 0 && ls[len(ls)-1].LayerType() == layerTypeChaos {
		return vh.Failf("chaos:silent", "commands %v: decoding stopped at a chaos layer with payload and no error layer", c.Data), in
	}
	if pp, ok := p.(gopacket.PooledPacket); ok {
		pp.Dispose()
	}
	return nil, in
}

func TestChaos(t *testing.T) {
	rapid.Check(t, func(rt *rapid.T) {
		c := &Case{LT: int(layerTypeChaos), Name: "VerifChaos", Opts: rapid.IntRange(0, 15).Draw(rt, "opts")}
		c.Data = rapid.SliceOfN(rapid.ByteRange(0, chaosCommands-1), 0, 10).Draw(rt, "commands")
		if rapid.IntRange(0, 3).Draw(rt, "tail") == 0 {
			c.Data = append(c.Data, rapid.SliceOfN(rapid.Byte(), 0, 40).Draw(rt, "tailbytes")...)
		}
		c.Prog = acc.Gen(rt, acc.ReadOnlyOps, 8)
		S.Current("TestChaos", c)
		f, in := runChaos(c)
		_, mustFail, _ := chaosExpect(c.Data)
		S.Note(vh.Hash64("chaos", c.Data, c.Opts, fmt.Sprint(c.Prog)), mustFail || in.layers >= 2, "src:chaos-decoder", fmt.Sprintf("opts:%04b", c.Opts))
		S.Check(rt, "TestChaos", c, f)
	})
}
