package c06

// Payloads around and beyond 64 KiB "where the protocol allows" (C06): UDP and TCP over IPv6, whose serializers
// switch to the jumbogram encoding (IPv6 hop-by-hop jumbo option, UDP length 0) at the 16-bit boundary.

import (
	"bytes"
	"encoding/json"
	"fmt"
	"net"
	"testing"

	"github.com/gopacket/gopacket"
	"github.com/gopacket/gopacket/layers"
	"pgregory.net/rapid"

	"verifharness/internal/vh"
)

type JumboCase struct {
	L4   string `json:"l4"` // udp | tcp
	Len  int    `json:"len"`
	Salt byte   `json:"salt"`
}

func jumboPayload(n int, salt byte) []byte {
	b := make([]byte, n)
	for i := range b {
		b[i] = byte(i*7+i>>8) ^ salt
	}
	return b
}

func runJumbo(c *JumboCase) (f *vh.Failure) {
	pv, stack := vh.Recover(func() { f = runJumbo1(c) })
	if pv != nil {
		fn, where := vh.InnermostRepoFunc(stack)
		return vh.Failf("jumbo:panic:"+fn, "%s payload %d: panic %v at %s", c.L4, c.Len, pv, where)
	}
	return f
}

func runJumbo1(c *JumboCase) *vh.Failure {
	eth := &layers.Ethernet{SrcMAC: net.HardwareAddr{2, 0, 0, 0, 0, 1}, DstMAC: net.HardwareAddr{2, 0, 0, 0, 0, 2}, EthernetType: layers.EthernetTypeIPv6}
	ip := &layers.IPv6{Version: 6, HopLimit: 64, SrcIP: net.ParseIP("fd00::1"), DstIP: net.ParseIP("fd00::2")}
	pl := jumboPayload(c.Len, c.Salt)
	var l4 gopacket.SerializableLayer
	switch c.L4 {
	case "udp":
		ip.NextHeader = layers.IPProtocolUDP
		u := &layers.UDP{SrcPort: 40001, DstPort: 40002}
		u.SetNetworkLayerForChecksum(ip)
		l4 = u
	default:
		ip.NextHeader = layers.IPProtocolTCP
		t := &layers.TCP{SrcPort: 40001, DstPort: 40002, Seq: 7, ACK: true, Window: 100}
		t.SetNetworkLayerForChecksum(ip)
		l4 = t
	}
	buf := gopacket.NewSerializeBuffer()
	if err := gopacket.SerializeLayers(buf, opts, eth, ip, l4, gopacket.Payload(pl)); err != nil {
		if c.Len+20 <= 65535 {
			return vh.Failf("jumbo:serialize-error:"+c.L4, "%s with a %d-byte payload fits an ordinary IPv6 packet but is refused: %v", c.L4, c.Len, err)
		}
		S.Class("jumbo-refused-by-serializer:"+c.L4, 1)
		return nil
	}
	p := gopacket.NewPacket(buf.Bytes(), layers.LayerTypeEthernet, gopacket.DecodeOptions{DecodeStreamsAsDatagrams: true})
	if el := p.ErrorLayer(); el != nil {
		return vh.Failf("jumbo:decode-error:"+c.L4, "%s over IPv6 with a %d-byte payload: the serialized packet does not decode: %v", c.L4, c.Len, el.Error())
	}
	if p.Metadata().Truncated {
		return vh.Failf("jumbo:truncated:"+c.L4, "%s over IPv6 with a %d-byte payload decodes with the truncation flag set", c.L4, c.Len)
	}
	var got []byte
	switch c.L4 {
	case "udp":
		u, _ := p.Layer(layers.LayerTypeUDP).(*layers.UDP)
		if u == nil {
			return vh.Failf("jumbo:layer-missing:udp", "payload %d: no UDP layer after the round trip; layers: %v", c.Len, p.Layers())
		}
		want := uint16(0)
		if c.Len+8 <= 65535 {
			want = uint16(c.Len + 8)
		}
		if u.SrcPort != 40001 || u.DstPort != 40002 || u.Length != want {
			return vh.Failf("jumbo:field:udp", "payload %d: UDP fields read back as ports %d/%d length %d (want 40001/40002 length %d)", c.Len, u.SrcPort, u.DstPort, u.Length, want)
		}
		got = u.Payload
	default:
		t, _ := p.Layer(layers.LayerTypeTCP).(*layers.TCP)
		if t == nil {
			return vh.Failf("jumbo:layer-missing:tcp", "payload %d: no TCP layer after the round trip; layers: %v", c.Len, p.Layers())
		}
		if t.SrcPort != 40001 || t.DstPort != 40002 || t.Seq != 7 || !t.ACK {
			return vh.Failf("jumbo:field:tcp", "payload %d: TCP fields changed through the round trip", c.Len)
		}
		got = t.Payload
	}
	if !bytes.Equal(got, pl) {
		return vh.Failf("jumbo:payload:"+c.L4, "payload of %d bytes reads back as %d bytes (first difference at %d)", c.Len, len(got), firstDiff(got, pl))
	}
	return nil
}

func TestJumbo(t *testing.T) {
	rapid.Check(t, func(rt *rapid.T) {
		c := &JumboCase{L4: rapid.SampledFrom([]string{"udp", "udp", "tcp"}).Draw(rt, "l4"), Salt: rapid.Byte().Draw(rt, "salt")}
		switch rapid.IntRange(0, 3).Draw(rt, "lenkind") {
		case 0: // around the 16-bit boundaries of the UDP length (payload+8) and the IPv6 payload length (payload+header)
			c.Len = 65535 - rapid.IntRange(-12, 40).Draw(rt, "below")
		case 1:
			c.Len = rapid.SampledFrom([]int{0, 1, 65507, 65515, 65527, 65528, 65529, 65535, 65536, 65537, 131072}).Draw(rt, "edge")
		default:
			c.Len = rapid.IntRange(60000, 75000).Draw(rt, "len")
		}
		js, _ := json.Marshal(c)
		S.Note(vh.Hash64("jumbo", js), c.Len+8 > 65535, "jumbo:"+c.L4, fmt.Sprintf("jumbo:over-64KiB:%v", c.Len+8 > 65535))
		S.Check(rt, "TestJumbo", c, runJumbo(c))
	})
}
