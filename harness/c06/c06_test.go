// Package c06 checks property C06: serialize then decode returns the same layers and payload; a written stack
// decodes back to the same stack and re-serialises to the same bytes (DESIGN.md §5 C06).
package c06

import (
	"bytes"
	"encoding/json"
	"fmt"
	"reflect"
	"testing"
	"time"

	"github.com/gopacket/gopacket"
	"github.com/gopacket/gopacket/layers"
	"pgregory.net/rapid"

	"verifharness/internal/gen"
	"verifharness/internal/registry"
	"verifharness/internal/sig"
	"verifharness/internal/vh"
)

var S = vh.New("C06")

func TestMain(m *testing.M) { vh.Main(m, S) }

var opts = gopacket.SerializeOptions{FixLengths: true, ComputeChecksums: true}

func typeName(v any) string {
	t := reflect.TypeOf(v)
	for t.Kind() == reflect.Ptr {
		t = t.Elem()
	}
	return t.Name()
}

// ---------- core tier: constructed stacks ----------

// StackCase is replayed through its serialised form: the bytes of the generated stack, plus the field
// signatures of the layers as SerializeTo left them.
type StackCase struct {
	Bytes  []byte   `json:"bytes"`
	Types  []string `json:"types"`
	Fields []string `json:"fields"` // sig.Fields of each constructed layer after serialisation
	Desc   []string `json:"desc"`
}

func runStack(c *StackCase) (f *vh.Failure) {
	S.Guard("TestStacks", "stack", c, 30*time.Second, func() {
		pv, stack := vh.Recover(func() { f = runStack1(c) })
		if pv != nil {
			fn, where := vh.InnermostRepoFunc(stack)
			f = vh.Failf("stack:panic:"+fn, "panic %v at %s", pv, where)
		}
	})
	return
}

func runStack1(c *StackCase) *vh.Failure {
	p := gopacket.NewPacket(c.Bytes, layers.LayerTypeEthernet, gopacket.DecodeOptions{DecodeStreamsAsDatagrams: true})
	ls := p.Layers()
	what := fmt.Sprintf("stack %v", c.Types)
	if el := p.ErrorLayer(); el != nil {
		last := "?"
		if n := len(ls); n >= 2 {
			last = ls[n-2].LayerType().String()
		}
		return vh.Failf("stack:redecode-error:"+last, "%s: the bytes gopacket wrote do not decode: %v (layers %v)", what, el.Error(), types(ls))
	}
	if p.Metadata().Truncated {
		return vh.Failf("stack:truncated", "%s: decoded packet is flagged truncated", what)
	}
	// documented Ethernet behaviour: frames are padded to 60 bytes; a protocol without its own length field may
	// therefore be followed by one extra payload layer of zero bytes
	dec := ls
	if len(dec) == len(c.Types)+1 {
		if pl, ok := dec[len(dec)-1].(*gopacket.Payload); ok && len(c.Bytes) <= 60 && allZero(*pl) {
			dec = dec[:len(dec)-1]
		}
	}
	// an empty trailing payload layer is not decoded at all
	want := c.Types
	wantFields := c.Fields
	if len(dec) == len(want)-1 && want[len(want)-1] == "Payload" {
		want, wantFields = want[:len(want)-1], wantFields[:len(wantFields)-1]
	}
	if len(dec) != len(want) {
		return vh.Failf("stack:layer-count", "%s decodes to %v", what, types(ls))
	}
	for i, l := range dec {
		if typeName(l) != want[i] {
			return vh.Failf("stack:layer-type:"+want[i], "%s: layer %d decodes as %s (all: %v)", what, i, typeName(l), types(ls))
		}
		got := sig.Fields(stripPadding(l))
		if got != wantFields[i] {
			if want[i] == "Payload" && len(c.Bytes) <= 60 {
				continue // zero padding appended to the innermost payload
			}
			return vh.Failf("stack:field:"+want[i]+":"+fieldAt(wantFields[i], got), "%s: layer %d (%s) decodes to different field values: %s", what, i, want[i], sig.Diff(wantFields[i], got))
		}
	}
	// writing the decoded stack once more reproduces the same bytes
	var lastNet gopacket.NetworkLayer
	for _, l := range ls {
		if n, ok := l.(gopacket.NetworkLayer); ok {
			lastNet = n // the nearest enclosing network layer (tunnels carry more than one)
		}
		if x, ok := l.(interface {
			SetNetworkLayerForChecksum(gopacket.NetworkLayer) error
		}); ok && lastNet != nil {
			x.SetNetworkLayerForChecksum(lastNet)
		}
	}
	buf := gopacket.NewSerializeBuffer()
	if err := gopacket.SerializePacket(buf, opts, p); err != nil {
		return vh.Failf("stack:reserialize-error", "%s: SerializePacket of the decoded packet failed: %v", what, err)
	}
	if !bytes.Equal(buf.Bytes(), c.Bytes) {
		k := firstDiff(buf.Bytes(), c.Bytes)
		return vh.Failf("stack:reserialize-bytes:"+layerAt(ls, k), "%s: writing the decoded stack again gives different bytes at offset %d of %d/%d (in %s): %#x vs %#x", what, k, len(buf.Bytes()), len(c.Bytes), layerAt(ls, k), at(buf.Bytes(), k), at(c.Bytes, k))
	}
	return nil
}

// stripPadding returns the layer without Pad1/PadN entries in IPv6 option lists: FixLengths inserts them for
// alignment and the decoder reports them as options, but they carry no content.
func stripPadding(l any) any {
	switch v := l.(type) {
	case *layers.IPv6Destination:
		c := *v
		c.Options = nil
		for _, o := range v.Options {
			if o.OptionType > 1 {
				c.Options = append(c.Options, o)
			}
		}
		return &c
	case *layers.IPv6HopByHop:
		c := *v
		c.Options = nil
		for _, o := range v.Options {
			if o.OptionType > 1 {
				c.Options = append(c.Options, o)
			}
		}
		return &c
	case *layers.IPv6:
		if v.HopByHop == nil {
			return l
		}
		c := *v
		c.HopByHop = stripPadding(v.HopByHop).(*layers.IPv6HopByHop)
		return &c
	case *layers.DNS:
		// The raw RDATA (Data/DataLength) of a record whose RDATA holds domain names is a slice of the original
		// message and may contain compression pointers into it; the serializer writes names uncompressed, so the
		// raw bytes cannot survive a new message layout. The decoded names are compared; the raw copy is not.
		c := *v
		strip := func(rs []layers.DNSResourceRecord) []layers.DNSResourceRecord {
			out := append([]layers.DNSResourceRecord(nil), rs...)
			for i := range out {
				switch out[i].Type {
				case layers.DNSTypeNS, layers.DNSTypeCNAME, layers.DNSTypePTR, layers.DNSTypeMX, layers.DNSTypeSOA, layers.DNSTypeSRV,
					layers.DNSTypeMD, layers.DNSTypeMF, layers.DNSTypeMB, layers.DNSTypeMG, layers.DNSTypeMR, layers.DNSTypeMINFO, layers.DNSTypeNAPTR, layers.DNSTypeRRSIG:
					out[i].Data, out[i].DataLength = nil, 0
				}
			}
			return out
		}
		c.Answers, c.Authorities, c.Additionals = strip(v.Answers), strip(v.Authorities), strip(v.Additionals)
		return &c
	}
	return l
}

func allZero(b []byte) bool {
	for _, x := range b {
		if x != 0 {
			return false
		}
	}
	return true
}

func at(b []byte, i int) byte {
	if i < len(b) {
		return b[i]
	}
	return 0
}

func firstDiff(a, b []byte) int {
	for i := 0; i < len(a) && i < len(b); i++ {
		if a[i] != b[i] {
			return i
		}
	}
	return min(len(a), len(b))
}

func layerAt(ls []gopacket.Layer, off int) string {
	o := 0
	for _, l := range ls {
		o += len(l.LayerContents())
		if off < o {
			return l.LayerType().String()
		}
	}
	return "payload"
}

func fieldAt(a, b string) string {
	i := 0
	for i < len(a) && i < len(b) && a[i] == b[i] {
		i++
	}
	if f := sig.FieldPath(a, i); f != "" {
		return f
	}
	return "?"
}

func types(ls []gopacket.Layer) []string {
	var t []string
	for _, l := range ls {
		t = append(t, typeName(l))
	}
	return t
}

func TestStacks(t *testing.T) {
	rapid.Check(t, func(rt *rapid.T) {
		st := gen.StackRT(rt)
		if st.Err != nil {
			// the generator only produces in-range values: a serialisation error is itself a finding
			c := &StackCase{Desc: st.Desc}
			for _, l := range st.Layers {
				c.Types = append(c.Types, typeName(l))
			}
			S.Note(vh.Hash64(fmt.Sprint(c.Types, st.Err)), true, "serialize-error")
			S.Check(rt, "TestStacks", c, vh.Failf("stack:serialize-error:"+fmt.Sprint(st.Desc), "SerializeLayers failed for in-range values %v: %v", c.Types, st.Err))
			return
		}
		c := &StackCase{Bytes: st.Bytes, Desc: st.Desc}
		for _, l := range st.Layers {
			c.Types = append(c.Types, typeName(l))
			c.Fields = append(c.Fields, sig.Fields(stripPadding(l)))
		}
		nt := false
		for _, d := range st.Desc {
			switch d {
			case "ipv4-options", "tcp-options", "ndp-options>=2", "ipv6-destination", "dns":
				nt = true
			}
		}
		if len(st.Bytes)%2 == 1 {
			nt = true
		}
		S.Note(vh.Hash64(st.Bytes), nt, st.Desc...)
		if nt && len(st.Bytes) < 200 && S.WantSample() {
			S.Sample(c)
		}
		S.Check(rt, "TestStacks", c, runStack(c))
	})
}

// ---------- generic tier: decode -> serialize -> decode for every serializable+decodable type ----------

type GenCase struct {
	LT   int    `json:"lt"`
	Name string `json:"name"`
	Data []byte `json:"data"`
}

// coreNames: the layer types of the generic tier. The tier is limited to the common link/network/transport/
// application stack, whose codecs were read and whose decode-side conventions the comparison knows
// (DESIGN.md C06); other serializable types are covered for crashes and buffer independence by C07 only.
var coreNames = map[string]bool{"Ethernet": true, "Dot1Q": true, "ARP": true, "IPv4": true, "IPv6": true, "IPv6Destination": true, "IPv6HopByHop": true,
	"TCP": true, "UDP": true, "UDPLite": true, "ICMPv4": true, "ICMPv6": true, "ICMPv6Echo": true, "ICMPv6NeighborSolicitation": true, "ICMPv6NeighborAdvertisement": true,
	"ICMPv6RouterSolicitation": true, "ICMPv6RouterAdvertisement": true, "DNS": true, "VXLAN": true, "MPLS": true, "PPP": true, "PPPoE": true, "GRE": true}

var roundTripTypes = func() []gopacket.LayerType {
	ser := map[string]bool{}
	for _, t := range registry.Serializable() {
		ser[t.Name] = true
	}
	var out []gopacket.LayerType
	for _, lt := range registry.FirstLayers() {
		if coreNames[lt.String()] {
			out = append(out, lt)
		}
	}
	_ = ser
	return out
}()

func runGeneric(c *GenCase) (f *vh.Failure, nt bool) {
	S.Guard("TestGeneric", c.Name, c, 30*time.Second, func() {
		pv, stack := vh.Recover(func() { f, nt = runGeneric1(c) })
		if pv != nil {
			fn, where := vh.InnermostRepoFunc(stack)
			f = vh.Failf("generic:"+c.Name+":panic:"+fn, "panic %v at %s", pv, where)
		}
	})
	return
}

func runGeneric1(c *GenCase) (*vh.Failure, bool) {
	lt := gopacket.LayerType(c.LT)
	p := gopacket.NewPacket(c.Data, lt, gopacket.DecodeOptions{DecodeStreamsAsDatagrams: true})
	ls := p.Layers()
	if len(ls) == 0 || ls[0].LayerType() == gopacket.LayerTypeDecodeFailure {
		return nil, false
	}
	l := ls[0]
	sl, ok := l.(gopacket.SerializableLayer)
	if !ok {
		return nil, false
	}
	if p.ErrorLayer() != nil {
		// only layers that decoded cleanly are round-trip subjects: ask the in-place decoder of the same struct
		if dl, ok := reflect.New(reflect.TypeOf(l).Elem()).Interface().(gopacket.DecodingLayer); ok {
			var derr error
			if pv, _ := vh.Recover(func() { derr = dl.DecodeFromBytes(append([]byte(nil), c.Data...), gopacket.NilDecodeFeedback) }); pv != nil || derr != nil {
				return nil, false
			}
		} else if len(ls) <= 2 {
			return nil, false
		}
	}
	name := typeName(l)
	if !coreNames[name] {
		return nil, false
	}
	if ip, ok := l.(*layers.IPv6); ok && (len(ip.Payload) == 0 || ip.Length == 0) {
		// not generated as round-trip subjects: an IPv6 header without payload gets Length 0, which the decoder
		// reserves for jumbograms; jumbograms keep the hop-by-hop header in the payload (known finding of C05)
		S.Class("generic-ipv6-empty-or-jumbo-skipped", 1)
		return nil, false
	}
	n := len(l.LayerContents())
	if ip, ok := l.(*layers.IPv6); ok && ip.HopByHop != nil {
		n = ip.HopByHop.ActualLength
	}
	if n > 1024 && (name == "IPv6Destination" || name == "IPv6HopByHop" || name == "IPv6") {
		S.Class("generic-ipv6-extension-over-1KiB-skipped", 1) // re-aligned by FixLengths it may exceed what the 8-bit length field expresses
		return nil, false
	}
	if g, ok := l.(*layers.GRE); ok && !g.ChecksumPresent && g.Checksum != 0 {
		S.Class("generic-gre-checksum-without-flag-skipped", 1) // the field is not on the wire
		return nil, false
	}
	payload := append([]byte(nil), l.LayerPayload()...)
	buf := gopacket.NewSerializeBuffer()
	var serr error
	if pv, _ := vh.Recover(func() { serr = gopacket.SerializeLayers(buf, opts, sl, gopacket.Payload(payload)) }); pv != nil {
		return nil, false // C07's subject
	}
	if serr != nil {
		return nil, false // needs a network layer for checksums, or rejects its own decoded value (counted by C07)
	}
	want := sig.Fields(stripPadding(l)) // the struct as SerializeTo left it
	out := append([]byte(nil), buf.Bytes()...)
	p2 := gopacket.NewPacket(out, lt, gopacket.DecodeOptions{DecodeStreamsAsDatagrams: true})
	ls2 := p2.Layers()
	if len(ls2) == 0 || typeName(ls2[0]) != name {
		return vh.Failf("generic:"+name+":redecode-type", "%s: written bytes decode as %v (error %v)", name, types(ls2), p2.ErrorLayer()), true
	}
	got := sig.Fields(stripPadding(ls2[0]))
	if got != want {
		return vh.Failf("generic:"+name+":field:"+fieldAt(want, got), "%s: field values change through serialize->decode: %s", name, sig.Diff(want, got)), true
	}
	if !bytes.Equal(ls2[0].LayerPayload(), payload) {
		// Ethernet pads short frames (documented)
		if name == "Ethernet" && len(out) <= 60 && bytes.HasPrefix(ls2[0].LayerPayload(), payload) && allZero(ls2[0].LayerPayload()[len(payload):]) {
			return nil, true
		}
		return vh.Failf("generic:"+name+":payload", "%s: payload changes through serialize->decode: %d bytes -> %d bytes (first difference at %d)", name, len(payload), len(ls2[0].LayerPayload()), firstDiff(payload, ls2[0].LayerPayload())), true
	}
	return nil, true
}

func TestGeneric(t *testing.T) {
	rapid.Check(t, func(rt *rapid.T) {
		lt := roundTripTypes[rapid.IntRange(0, len(roundTripTypes)-1).Draw(rt, "type")]
		c := &GenCase{LT: int(lt), Name: lt.String()}
		c.Data, _ = gen.Bytes(rt)
		if len(c.Data) > 3000 {
			c.Data = c.Data[:3000]
		}
		f, nt := runGeneric(c)
		cls := []string{"generic"}
		if nt {
			cls = append(cls, "round-tripped:"+c.Name)
		}
		S.Note(vh.Hash64(c.LT, c.Data), nt, cls...)
		if nt && len(c.Data) < 120 && S.WantSample() {
			S.Sample(c)
		}
		S.Check(rt, "TestGeneric", c, f)
	})
}

func TestRegress(t *testing.T) {
	S.Regress(t, func(rf *vh.ReplayFile) (bool, *vh.Failure) {
		switch rf.Test {
		case "TestStacks":
			var c StackCase
			if err := json.Unmarshal(rf.Case, &c); err != nil {
				t.Fatal(err)
			}
			if len(c.Bytes) == 0 {
				return true, nil // a recorded serialisation error of the generator: reproduced by the generator only
			}
			return true, runStack(&c)
		case "TestGeneric":
			var c GenCase
			if err := json.Unmarshal(rf.Case, &c); err != nil {
				t.Fatal(err)
			}
			f, _ := runGeneric(&c)
			return true, f
		case "TestJumbo":
			var c JumboCase
			if err := json.Unmarshal(rf.Case, &c); err != nil {
				t.Fatal(err)
			}
			return true, runJumbo(&c)
		}
		return false, nil
	})
}
