package c07

import (
	"testing"

	"github.com/gopacket/gopacket"
	"github.com/gopacket/gopacket/layers"

	"verifharness/internal/corpus"
	"verifharness/internal/registry"
)

// FuzzSerialize is the coverage-guided entry (thorough tier): the bytes are decoded, one serializable layer of the
// result is written on a fresh and on a used-and-cleared buffer under the selected options. The oracle is runCase.
func FuzzSerialize(f *testing.F) {
	seeds := corpus.Seeds()
	for i := 0; i < len(seeds); i += 11 {
		if len(seeds[i]) < 600 {
			f.Add(byte(i), byte(i>>2), seeds[i])
		}
	}
	fl := registry.FirstLayers()
	dirty := Dirty{Rounds: []Round{{Pre: 300, App: 300, Fill: 0xA5, Push: []int{int(gopacket.LayerTypePayload), int(layers.LayerTypeIPv6HopByHop), int(layers.LayerTypeIPv6), int(layers.LayerTypeEthernet)}}}}
	f.Fuzz(func(t *testing.T, sel, o byte, d []byte) {
		if len(d) > 1<<16 {
			return
		}
		lt := fl[(int(sel)+int(o>>5)*256)%len(fl)]
		if o&16 != 0 {
			lt = layers.LayerTypeEthernet
		}
		c := &Case{Source: "decoded", LT: int(lt), Data: d, Index: int(o>>2) & 3, Fix: o&1 != 0, Csum: o&2 != 0, Dirty: dirty, HintP: 64, HintA: 7}
		fail, _, _ := runCase(c)
		S.Check(t, "TestSerialize", c, fail)
	})
}
