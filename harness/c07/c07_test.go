// Package c07 checks property C07: serialisation never panics and its output depends only on the layer, the
// payload and the options — not on the history of the serialize buffer (DESIGN.md §5 C07).
package c07

import (
	"bytes"
	"encoding/json"
	"fmt"
	"reflect"
	"testing"
	"time"

	"github.com/gopacket/gopacket"
	"github.com/gopacket/gopacket/layers"
	"pgregory.net/rapid"

	"verifharness/internal/fill"
	"verifharness/internal/gen"
	"verifharness/internal/registry"
	"verifharness/internal/vh"
)

var S = vh.New("C07")

func TestMain(m *testing.M) { vh.Main(m, S) }

// Dirty describes the buffer history before the serialisation under test.
type Dirty struct {
	Rounds []Round `json:"rounds"`
}
type Round struct {
	Pre, App int
	Fill     byte
	Push     []int `json:",omitempty"` // layer types recorded in the buffer during the round (what SerializeLayers does for every layer it writes)
}

type Case struct {
	Source  string `json:"source"` // decoded | filled
	LT      int    `json:"lt,omitempty"`
	Data    []byte `json:"data,omitempty"`
	Index   int    `json:"index,omitempty"` // which serializable layer of the decoded packet
	Type    string `json:"type,omitempty"`  // filled: struct type name
	Seed    uint64 `json:"seed,omitempty"`
	Payload []byte `json:"payload,omitempty"` // filled: payload the layer is written over
	// BigPayload > 0: the layer is written over a generated payload of that many bytes (65500..70000: around and
	// beyond the 16-bit length fields, where IPv6/UDP/TCP switch to jumbogram handling) instead of Payload
	BigPayload int `json:"big_payload,omitempty"`
	Fix     bool   `json:"fix_lengths"`
	Csum    bool   `json:"compute_checksums"`
	Dirty   Dirty  `json:"dirty"`
	HintP   int    `json:"hint_p"`
	HintA   int    `json:"hint_a"`
}

var serTypes = func() map[string]registry.Type {
	m := map[string]registry.Type{}
	for _, t := range registry.Serializable() {
		m[t.Name] = t
	}
	return m
}()
var serNames = func() []string {
	var n []string
	for _, t := range registry.Serializable() {
		n = append(n, t.Name)
	}
	return n
}()

// build returns the layer under test (a fresh, independent instance on every call), its payload and its type name.
func (c *Case) build() (gopacket.SerializableLayer, []byte, string, bool) {
	switch c.Source {
	case "filled":
		t, ok := serTypes[c.Type]
		if !ok {
			return nil, nil, "", false
		}
		v := t.New()
		fill.Fill(v, c.Seed)
		sl, ok := v.(gopacket.SerializableLayer)
		if c.BigPayload > 0 {
			return sl, bigPayload(c.BigPayload), c.Type, ok
		}
		return sl, c.Payload, c.Type, ok
	default:
		var p gopacket.Packet
		if pv, _ := vh.Recover(func() {
			p = gopacket.NewPacket(append([]byte(nil), c.Data...), gopacket.LayerType(c.LT), gopacket.DecodeOptions{DecodeStreamsAsDatagrams: true})
			p.Layers()
		}); pv != nil || p == nil {
			return nil, nil, "", false
		}
		var sls []gopacket.Layer
		for _, l := range p.Layers() {
			if _, ok := l.(gopacket.SerializableLayer); ok && l.LayerType() != gopacket.LayerTypeDecodeFailure {
				sls = append(sls, l)
			}
		}
		if len(sls) == 0 {
			return nil, nil, "", false
		}
		l := sls[c.Index%len(sls)]
		if x, ok := l.(interface {
			SetNetworkLayerForChecksum(gopacket.NetworkLayer) error
		}); ok && p.NetworkLayer() != nil {
			x.SetNetworkLayerForChecksum(p.NetworkLayer())
		}
		name := reflect.TypeOf(l).String()
		if i := len("*layers."); len(name) > i && name[:i] == "*layers." {
			name = name[i:]
		}
		return l.(gopacket.SerializableLayer), append([]byte(nil), l.LayerPayload()...), name, true
	}
}

func bigPayload(n int) []byte {
	b := make([]byte, n)
	for i := range b {
		b[i] = byte(i*131 + i>>8 + 7)
	}
	return b
}

type outcome struct {
	bytes []byte
	err   bool
	panic string
}

func serialize(l gopacket.SerializableLayer, payload []byte, buf gopacket.SerializeBuffer, o gopacket.SerializeOptions) (out outcome) {
	pv, stack := vh.Recover(func() {
		err := gopacket.SerializeLayers(buf, o, l, gopacket.Payload(payload))
		out.err = err != nil
		if err == nil {
			out.bytes = append([]byte(nil), buf.Bytes()...)
		}
	})
	if pv != nil {
		fn, where := vh.InnermostRepoFunc(stack)
		out.panic = fmt.Sprintf("%s|%v at %s", fn, pv, where)
	}
	return
}

func dirtyBuffer(d Dirty) gopacket.SerializeBuffer {
	buf := gopacket.NewSerializeBuffer()
	for _, r := range d.Rounds {
		if b, err := buf.PrependBytes(r.Pre); err == nil {
			for i := range b {
				b[i] = r.Fill
			}
		}
		if b, err := buf.AppendBytes(r.App); err == nil {
			for i := range b {
				b[i] = ^r.Fill
			}
		}
		for _, lt := range r.Push {
			buf.PushLayer(gopacket.LayerType(lt))
		}
		buf.Clear()
	}
	return buf
}

func runCase(c *Case) (f *vh.Failure, name string, nontrivial bool) {
	S.Guard("TestSerialize", c.Source+":"+c.Type, c, 30*time.Second, func() { f, name, nontrivial = runCase1(c) })
	return
}

func splitPanic(s string) (string, string) {
	for i := 0; i < len(s); i++ {
		if s[i] == '|' {
			return s[:i], s[i+1:]
		}
	}
	return s, ""
}

func runCase1(c *Case) (*vh.Failure, string, bool) {
	o := gopacket.SerializeOptions{FixLengths: c.Fix, ComputeChecksums: c.Csum}
	l1, payload, name, ok := c.build()
	if !ok {
		return nil, "", false
	}
	l2, _, _, _ := c.build()
	l3, _, _, _ := c.build()
	if l2 == nil || l3 == nil {
		return nil, name, false
	}
	fresh := serialize(l1, payload, gopacket.NewSerializeBuffer(), o)
	if fresh.panic != "" {
		fn, msg := splitPanic(fresh.panic)
		return vh.Failf(name+":panic:"+fn, "SerializeTo of %s (%s, opts fix=%v csum=%v) panicked: %s", name, c.Source, c.Fix, c.Csum, msg), name, true
	}
	dirty := serialize(l2, payload, dirtyBuffer(c.Dirty), o)
	if dirty.panic != "" {
		fn, msg := splitPanic(dirty.panic)
		return vh.Failf(name+":panic:"+fn, "SerializeTo of %s on a reused buffer panicked: %s", name, msg), name, true
	}
	if fresh.err != dirty.err {
		return vh.Failf(name+":err-differs", "%s: error on fresh buffer=%v, on reused buffer=%v", name, fresh.err, dirty.err), name, true
	}
	if !bytes.Equal(fresh.bytes, dirty.bytes) {
		k := firstDiff(fresh.bytes, dirty.bytes)
		return vh.Failf(name+":dirty-leak", "%s (fix=%v csum=%v): output differs between a fresh buffer and a cleared, previously used buffer at offset %d of %d (fresh %#x, reused %#x): stale buffer content leaks into the packet", name, c.Fix, c.Csum, k, len(fresh.bytes), at(fresh.bytes, k), at(dirty.bytes, k)), name, true
	}
	sized := serialize(l3, payload, gopacket.NewSerializeBufferExpectedSize(c.HintP, c.HintA), o)
	if sized.panic != "" {
		fn, msg := splitPanic(sized.panic)
		return vh.Failf(name+":panic:"+fn, "SerializeTo of %s on a pre-sized buffer panicked: %s", name, msg), name, true
	}
	if fresh.err != sized.err || !bytes.Equal(fresh.bytes, sized.bytes) {
		return vh.Failf(name+":presized-differs", "%s: output on a buffer pre-sized (%d,%d) differs from a fresh buffer at offset %d", name, c.HintP, c.HintA, firstDiff(fresh.bytes, sized.bytes)), name, true
	}
	// writing the same layer again gives the same bytes
	again := serialize(l1, payload, gopacket.NewSerializeBuffer(), o)
	if again.panic != "" {
		fn, msg := splitPanic(again.panic)
		return vh.Failf(name+":panic:"+fn, "second SerializeTo of the same %s panicked: %s", name, msg), name, true
	}
	if again.err != fresh.err || !bytes.Equal(again.bytes, fresh.bytes) {
		return vh.Failf(name+":not-repeatable", "%s (fix=%v csum=%v): serialising the same layer value a second time gives different bytes (first difference at %d of %d/%d)", name, c.Fix, c.Csum, firstDiff(fresh.bytes, again.bytes), len(fresh.bytes), len(again.bytes)), name, true
	}
	return nil, name, len(c.Dirty.Rounds) > 0 && !fresh.err
}

func at(b []byte, i int) byte {
	if i < len(b) {
		return b[i]
	}
	return 0
}

func firstDiff(a, b []byte) int {
	for i := 0; i < len(a) && i < len(b); i++ {
		if a[i] != b[i] {
			return i
		}
	}
	return min(len(a), len(b))
}

var pushTypes = []gopacket.LayerType{gopacket.LayerTypePayload, layers.LayerTypeUDP, layers.LayerTypeTCP, layers.LayerTypeIPv6HopByHop, layers.LayerTypeIPv6Destination,
	layers.LayerTypeIPv6, layers.LayerTypeIPv4, layers.LayerTypeEthernet, layers.LayerTypeGRE, layers.LayerTypeDot1Q}

func genDirty(t *rapid.T) Dirty {
	var d Dirty
	n := rapid.IntRange(0, 3).Draw(t, "rounds")
	for i := 0; i < n; i++ {
		r := Round{Pre: rapid.SampledFrom([]int{0, 1, 7, 64, 300, 4096}).Draw(t, "dpre"), App: rapid.SampledFrom([]int{0, 1, 7, 64, 2000}).Draw(t, "dapp"), Fill: rapid.SampledFrom([]byte{0xA5, 0x5A, 0xFF, 0x01}).Draw(t, "dfill")}
		if rapid.Bool().Draw(t, "dpush") {
			// the earlier packet's layer types, innermost first as SerializeLayers records them
			for _, lt := range rapid.SliceOfN(rapid.SampledFrom(pushTypes), 1, 4).Draw(t, "dpushed") {
				r.Push = append(r.Push, int(lt))
			}
		}
		d.Rounds = append(d.Rounds, r)
	}
	return d
}

func genCase(t *rapid.T) *Case {
	c := &Case{Fix: rapid.Bool().Draw(t, "fix"), Csum: rapid.Bool().Draw(t, "csum"), Dirty: genDirty(t),
		HintP: rapid.SampledFrom([]int{0, 1, 7, 64, 4096}).Draw(t, "hintp"), HintA: rapid.SampledFrom([]int{0, 1, 7, 64, 4096}).Draw(t, "hinta")}
	if rapid.IntRange(0, 2).Draw(t, "source") == 0 {
		c.Source = "filled"
		c.Type = rapid.SampledFrom(serNames).Draw(t, "type")
		c.Seed = rapid.Uint64().Draw(t, "seed")
		c.Payload = rapid.SliceOfN(rapid.Byte(), 0, 40).Draw(t, "payload")
		if rapid.IntRange(0, 24).Draw(t, "big") == 0 {
			c.Payload = nil
			c.BigPayload = rapid.SampledFrom([]int{65500, 65527, 65528, 65535, 65536, 66000, 70000}).Draw(t, "bigpayload")
			if rapid.Bool().Draw(t, "lengthsensitive") {
				c.Type = rapid.SampledFrom([]string{"IPv6", "IPv4", "UDP", "TCP", "UDPLite", "IPv6Fragment", "GRE", "ICMPv6"}).Draw(t, "bigtype")
			}
		}
		return c
	}
	c.Source = "decoded"
	fl := registry.FirstLayers()
	lt := fl[rapid.IntRange(0, len(fl)-1).Draw(t, "first")]
	if rapid.IntRange(0, 2).Draw(t, "eth") > 0 {
		lt = layers.LayerTypeEthernet
	}
	c.LT = int(lt)
	c.Type = lt.String()
	c.Data, _ = gen.Bytes(t)
	if len(c.Data) > 3000 {
		c.Data = c.Data[:3000]
	}
	c.Index = rapid.IntRange(0, 8).Draw(t, "index")
	return c
}

func TestSerialize(t *testing.T) {
	rapid.Check(t, func(rt *rapid.T) {
		c := genCase(rt)
		S.Current("TestSerialize", c)
		f, name, nt := runCase(c)
		js, _ := json.Marshal(c)
		cls := []string{"source:" + c.Source}
		if c.BigPayload > 0 {
			cls = append(cls, "payload>65499")
		}
		if name != "" {
			cls = append(cls, "type:"+name)
		}
		S.Note(vh.Hash64(js), nt, cls...)
		if nt && len(js) < 900 && S.WantSample() {
			S.Sample(c)
		}
		S.Check(rt, "TestSerialize", c, f)
	})
}

// TestAllTypes: every serializable struct type x 200 fill seeds x 4 option sets on a dirty buffer (deterministic sweep).
func TestAllTypes(t *testing.T) {
	n := 30
	if vh.Thorough() {
		n = 1500
	}
	sh, nsh := vh.Shard()
	total := 0
	for ti, name := range serNames {
		if ti%nsh != sh {
			continue
		}
		for s := 0; s < n; s++ {
			c := &Case{Source: "filled", Type: name, Seed: uint64(s)*2654435761 + 12345, Payload: []byte{1, 2, 3, 4, 5}[:s%6], Fix: s&1 == 0, Csum: s&2 == 0,
				Dirty: Dirty{Rounds: []Round{{Pre: 300, App: 300, Fill: 0xA5, Push: []int{int(gopacket.LayerTypePayload), int(layers.LayerTypeIPv6HopByHop), int(layers.LayerTypeIPv6), int(layers.LayerTypeEthernet)}}}}, HintP: 64, HintA: 7}
			f, _, nt := runCase(c)
			total++
			S.Note(vh.Hash64(name, s), nt, "sweep", "type:"+name)
			S.Check(t, "TestSerialize", c, f)
			if t.Failed() {
				return
			}
		}
	}
	S.Extra("sweep_cases_total", total)
	S.Extra("serializable_types", len(serNames))
}

func TestRegress(t *testing.T) {
	S.Regress(t, func(rf *vh.ReplayFile) (bool, *vh.Failure) {
		var c Case
		if err := json.Unmarshal(rf.Case, &c); err != nil {
			t.Fatal(err)
		}
		f, _, _ := runCase(&c)
		return true, f
	})
}
