// Package c02 checks property C02: decoding is deterministic and side-effect free; eager packets are
// shareable between goroutines (DESIGN.md §5 C02). The concurrent tests are meant for a -race binary.
package c02

import (
	"bytes"
	"encoding/json"
	"fmt"
	"os"
	"strings"
	"sync"
	"testing"
	"time"

	"github.com/gopacket/gopacket"
	"github.com/gopacket/gopacket/layers"
	"pgregory.net/rapid"

	"verifharness/internal/acc"
	"verifharness/internal/corpus"
	"verifharness/internal/gen"
	"verifharness/internal/registry"
	"verifharness/internal/sig"
	"verifharness/internal/vh"
)

var S = vh.New("C02")

// palette: signatures of corpus seeds taken at the very start of the process, re-checked at the very end
var palette []string
var paletteSeeds [][]byte

func paletteSig(b []byte) string {
	p := gopacket.NewPacket(b, layers.LayerTypeEthernet, gopacket.Default)
	var s string
	vh.Recover(func() { s = sig.Packet(p) + "|" + acc.Exec(p, acc.Step{Op: "String"}) })
	return s
}

func TestMain(m *testing.M) {
	seeds := corpus.Seeds()
	for i := 0; i < len(seeds) && len(paletteSeeds) < 200; i += max(1, len(seeds)/200) {
		if len(seeds[i]) <= 2000 {
			paletteSeeds = append(paletteSeeds, seeds[i])
			palette = append(palette, paletteSig(seeds[i]))
		}
	}
	code := m.Run()
	S.Finish()
	os.Exit(code)
}

// Item is one packet of a history.
type Item struct {
	LT     int    `json:"lt"`
	Data   []byte `json:"data"`
	Opts   int    `json:"opts"`   // bit0 Lazy, bit1 NoCopy, bit3 DecodeStreamsAsDatagrams
	Action string `json:"action"` // decode | decode+render | decode+serialize | serialize-stack
}

type Case struct {
	X     Item   `json:"x"`
	Items []Item `json:"items"` // other traffic between the occurrences of X
	XAt   []int  `json:"x_at"`  // X is decoded before item index k for every k listed (and once at the end)
}

func opts(o int) gopacket.DecodeOptions {
	return gopacket.DecodeOptions{Lazy: o&1 != 0, NoCopy: o&2 != 0, DecodeStreamsAsDatagrams: o&8 != 0}
}

var fullProg = func() []acc.Step {
	var p []acc.Step
	for _, op := range acc.ReadOnlyOps {
		switch op {
		case "Layer":
			p = append(p, acc.Step{Op: op, Arg: int(layers.LayerTypeTCP)}, acc.Step{Op: op, Arg: int(gopacket.LayerTypePayload)})
		case "LayerClass":
			p = append(p, acc.Step{Op: op, Arg: 0}, acc.Step{Op: op, Arg: 1})
		case "LayerString", "LayerDump", "LayerGoString":
			for i := 0; i < 5; i++ {
				p = append(p, acc.Step{Op: op, Arg: i})
			}
		default:
			p = append(p, acc.Step{Op: op})
		}
	}
	return p
}()

// observe decodes it and returns its full observable signature; it also checks that the caller's buffer is
// never written to, by any operation.
func observe(it *Item, render bool) (string, *vh.Failure) {
	buf := append([]byte(nil), it.Data...)
	orig := append([]byte(nil), it.Data...)
	var p gopacket.Packet
	if pv, _ := vh.Recover(func() { p = gopacket.NewPacket(buf, gopacket.LayerType(it.LT), opts(it.Opts)) }); pv != nil {
		return "", nil // C01's subject
	}
	if !bytes.Equal(buf, orig) {
		return "", vh.Failf("input-written:decode", "NewPacket(%v, opts %04b) modified the caller's %d-byte buffer at offset %d", gopacket.LayerType(it.LT), it.Opts, len(buf), firstDiff(buf, orig))
	}
	var sb strings.Builder
	var f *vh.Failure
	vh.Recover(func() {
		sb.WriteString(sig.Packet(p))
		if !bytes.Equal(buf, orig) {
			f = vh.Failf("input-written:Layers", "Layers() modified the caller's buffer at offset %d", firstDiff(buf, orig))
			return
		}
		if render {
			acc.AttachPseudoHeaders(p)
			for _, s := range fullProg {
				var r string
				if pv, _ := vh.Recover(func() { r = acc.Exec(p, s) }); pv != nil {
					r = "<panic>"
				}
				sb.WriteString("\n" + s.Op + "=" + r)
				if !bytes.Equal(buf, orig) {
					f = vh.Failf("input-written:"+s.Op, "%s modified the caller's buffer (first layer %v, opts %04b) at offset %d: %#x -> %#x", s.Op, gopacket.LayerType(it.LT), it.Opts, firstDiff(buf, orig), orig[firstDiff(buf, orig)], buf[firstDiff(buf, orig)])
					return
				}
			}
			// serialising the decoded packet must not touch the input either
			sbuf := gopacket.NewSerializeBuffer()
			vh.Recover(func() {
				gopacket.SerializePacket(sbuf, gopacket.SerializeOptions{FixLengths: true, ComputeChecksums: true}, p)
			})
			if !bytes.Equal(buf, orig) {
				f = vh.Failf("input-written:SerializePacket", "SerializePacket modified the caller's buffer at offset %d", firstDiff(buf, orig))
				return
			}
		}
	})
	return sb.String(), f
}

func firstDiff(a, b []byte) int {
	for i := 0; i < len(a) && i < len(b); i++ {
		if a[i] != b[i] {
			return i
		}
	}
	return min(len(a), len(b))
}

func runHistory(c *Case) (f *vh.Failure) {
	S.Guard("TestHistory", "history", c, 60*time.Second, func() { f = runHistory1(c) })
	return
}

func runHistory1(c *Case) *vh.Failure {
	ref, f := observe(&c.X, true)
	if f != nil {
		return f
	}
	at := map[int]bool{}
	for _, k := range c.XAt {
		at[k] = true
	}
	checkX := func(where string) *vh.Failure {
		s, f := observe(&c.X, true)
		if f != nil {
			return f
		}
		if s != ref {
			return vh.Failf("nondeterministic:"+gopacket.LayerType(c.X.LT).String(), "decoding the same %d bytes as %v (opts %04b) %s gives a different packet: %s", len(c.X.Data), gopacket.LayerType(c.X.LT), c.X.Opts, where, sig.Diff(ref, s))
		}
		return nil
	}
	for i := range c.Items {
		if at[i] {
			if f := checkX(fmt.Sprintf("after %d other packets", i)); f != nil {
				return f
			}
		}
		it := &c.Items[i]
		switch it.Action {
		case "serialize-stack":
			// serialisation of unrelated packets (touches shared zero buffers / option tables)
			p := gopacket.NewPacket(it.Data, gopacket.LayerType(it.LT), gopacket.Default)
			sbuf := gopacket.NewSerializeBuffer()
			vh.Recover(func() {
				gopacket.SerializePacket(sbuf, gopacket.SerializeOptions{FixLengths: true, ComputeChecksums: true}, p)
			})
		default:
			if _, f := observe(it, it.Action != "decode"); f != nil {
				return f
			}
		}
	}
	return checkX("at the end of the history")
}

func genItem(t *rapid.T) Item {
	fl := registry.FirstLayers()
	lt := fl[rapid.IntRange(0, len(fl)-1).Draw(t, "first")]
	if rapid.IntRange(0, 2).Draw(t, "eth") > 0 {
		lt = layers.LayerTypeEthernet
	}
	it := Item{LT: int(lt), Opts: rapid.SampledFrom([]int{0, 1, 2, 3, 8, 10}).Draw(t, "opts")}
	it.Data, _ = gen.Bytes(t)
	if len(it.Data) > 4000 {
		it.Data = it.Data[:4000]
	}
	it.Action = rapid.SampledFrom([]string{"decode", "decode+render", "decode+render", "serialize-stack"}).Draw(t, "action")
	return it
}

func TestHistory(t *testing.T) {
	rapid.Check(t, func(rt *rapid.T) {
		c := &Case{X: genItem(rt)}
		n := rapid.IntRange(1, 12).Draw(rt, "nitems")
		for i := 0; i < n; i++ {
			c.Items = append(c.Items, genItem(rt))
		}
		c.XAt = rapid.SliceOfNDistinct(rapid.IntRange(0, n-1), 0, min(3, n), func(i int) int { return i }).Draw(rt, "xat")
		nl := 0
		vh.Recover(func() {
			nl = len(gopacket.NewPacket(c.X.Data, gopacket.LayerType(c.X.LT), gopacket.Default).Layers())
		})
		nt := nl >= 3 && n >= 1
		js, _ := json.Marshal(c)
		cls := []string{fmt.Sprintf("x-opts:%04b", c.X.Opts)}
		if c.X.Opts&2 != 0 {
			cls = append(cls, "x-nocopy")
		}
		S.Note(vh.Hash64(js), nt, cls...)
		if nt && len(js) < 2500 && S.WantSample() {
			S.Sample(c)
		}
		S.Check(rt, "TestHistory", c, runHistory(c))
	})
}

// TestPalette (run last: the name sorts after the others in the plan): the seeds whose signatures were taken
// before anything else ran in this process must still decode to the same signatures.
func TestPalette(t *testing.T) {
	for i, b := range paletteSeeds {
		if s := paletteSig(b); s != palette[i] {
			c := &Case{X: Item{LT: int(layers.LayerTypeEthernet), Data: b}}
			S.Check(t, "TestHistory", c, vh.Failf("nondeterministic:process-lifetime", "seed %d decodes differently at the end of the process than at its start: %s", i, sig.Diff(palette[i], s)))
			return
		}
		S.Note(vh.Hash64("palette", b), true, "palette")
	}
}

// ---------- concurrency (build with -race) ----------

type ConcCase struct {
	Shared  Item         `json:"shared"`
	Readers [][]acc.Step `json:"readers"`
	Decode  []Item       `json:"decode"` // decoded concurrently by as many goroutines
}

func runConc(c *ConcCase) (f *vh.Failure) {
	S.Guard("TestConcurrent", "concurrent", c, 120*time.Second, func() { f = runConc1(c) })
	return
}

func runConc1(c *ConcCase) *vh.Failure {
	// phase 1: concurrent decoding of disjoint inputs equals sequential decoding
	seq := make([]string, len(c.Decode))
	for i := range c.Decode {
		seq[i], _ = observe(&c.Decode[i], false)
	}
	par := make([]string, len(c.Decode))
	var wg sync.WaitGroup
	start := make(chan struct{})
	for i := range c.Decode {
		wg.Add(1)
		go func(i int) {
			defer wg.Done()
			<-start
			par[i], _ = observe(&c.Decode[i], false)
		}(i)
	}
	close(start)
	wg.Wait()
	for i := range seq {
		if seq[i] != par[i] {
			return vh.Failf("concurrent-decode-differs", "packet %d decoded concurrently differs from sequential decoding: %s", i, sig.Diff(seq[i], par[i]))
		}
	}
	// phase 2: one eager packet, many readers
	var p gopacket.Packet
	o := opts(c.Shared.Opts)
	o.Lazy = false
	buf := append([]byte(nil), c.Shared.Data...)
	if pv, _ := vh.Recover(func() { p = gopacket.NewPacket(buf, gopacket.LayerType(c.Shared.LT), o) }); pv != nil {
		return nil
	}
	acc.AttachPseudoHeaders(p) // before sharing: this mutates the layers
	// expected answers come from a twin packet decoded from the same bytes, so that the shared packet reaches the
	// readers untouched (an accessor that lazily caches something in a layer must race on its first use)
	var q gopacket.Packet
	if pv, _ := vh.Recover(func() {
		q = gopacket.NewPacket(append([]byte(nil), c.Shared.Data...), gopacket.LayerType(c.Shared.LT), o)
	}); pv != nil {
		return nil
	}
	acc.AttachPseudoHeaders(q)
	want := make([][]string, len(c.Readers))
	for i, prog := range c.Readers {
		for _, s := range prog {
			var r string
			if pv, _ := vh.Recover(func() { r = acc.Exec(q, s) }); pv != nil {
				r = "<panic>"
			}
			want[i] = append(want[i], r)
		}
	}
	got := make([][]string, len(c.Readers))
	start2 := make(chan struct{})
	for i, prog := range c.Readers {
		wg.Add(1)
		go func(i int, prog []acc.Step) {
			defer wg.Done()
			<-start2
			for _, s := range prog {
				var r string
				if pv, _ := vh.Recover(func() { r = acc.Exec(p, s) }); pv != nil {
					r = "<panic>"
				}
				got[i] = append(got[i], r)
			}
		}(i, prog)
	}
	close(start2)
	wg.Wait()
	for i := range want {
		for k := range want[i] {
			if want[i][k] != got[i][k] {
				return vh.Failf("reader-answer-differs:"+c.Readers[i][k].Op, "reader %d step %d (%s) got a different answer when reading concurrently: %s", i, k, c.Readers[i][k].Op, sig.Diff(want[i][k], got[i][k]))
			}
		}
	}
	return nil
}

func TestConcurrent(t *testing.T) {
	rapid.Check(t, func(rt *rapid.T) {
		c := &ConcCase{}
		// shared packet: a decodable multi-layer packet (stack or seed)
		if st := gen.Stack(rt); st.Err == nil && rapid.Bool().Draw(rt, "usestack") {
			c.Shared = Item{LT: int(layers.LayerTypeEthernet), Data: st.Bytes}
		} else {
			c.Shared = Item{LT: int(layers.LayerTypeEthernet), Data: gen.Seeded(rt)}
		}
		c.Shared.Opts = rapid.SampledFrom([]int{0, 2, 8, 10}).Draw(rt, "opts")
		nr := rapid.IntRange(2, 8).Draw(rt, "readers")
		heavy := 0
		for i := 0; i < nr; i++ {
			prog := acc.Gen(rt, acc.ReadOnlyOps, 8)
			// make sure the racy candidates are exercised by every reader
			prog = append(prog, acc.Step{Op: "VerifyChecksums"}, acc.Step{Op: "String"})
			heavy++
			c.Readers = append(c.Readers, prog)
		}
		nd := rapid.IntRange(2, 8).Draw(rt, "decoders")
		for i := 0; i < nd; i++ {
			it := genItem(rt)
			if len(it.Data) > 1600 {
				it.Data = it.Data[:1600]
			}
			c.Decode = append(c.Decode, it)
		}
		js, _ := json.Marshal(c)
		S.Note(vh.Hash64(js), heavy >= 2, fmt.Sprintf("readers-%d", nr))
		if len(js) < 3000 && S.WantSample() {
			S.Sample(c)
		}
		S.Current("TestConcurrent", c)
		S.Check(rt, "TestConcurrent", c, runConc(c))
	})
}

func TestRegress(t *testing.T) {
	S.Regress(t, func(rf *vh.ReplayFile) (bool, *vh.Failure) {
		switch rf.Test {
		case "TestHistory":
			var c Case
			if err := json.Unmarshal(rf.Case, &c); err != nil {
				t.Fatal(err)
			}
			return true, runHistory(&c)
		case "TestConcurrent":
			var c ConcCase
			if err := json.Unmarshal(rf.Case, &c); err != nil {
				t.Fatal(err)
			}
			// run it repeatedly: a race needs the two accesses to overlap in the detector's window
			for i := 0; i < 30; i++ {
				if f := runConc(&c); f != nil {
					return true, f
				}
			}
			return true, nil
		}
		return false, nil
	})
}
