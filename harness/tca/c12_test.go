package tca

// C12: assemblers sharing one stream pool under every interleaving (DESIGN.md §5 C12).
// TestC12 runs 2..4 assembler goroutines and a flusher as coroutines of a controller that owns the schedule
// (hooks H2/H3); TestC12Race runs the same workloads with real goroutines for the race detector.

import (
	"encoding/json"
	"fmt"
	"os"
	"runtime/debug"
	"strings"
	"sync"
	"testing"
	"time"

	"github.com/gopacket/gopacket/tcpassembly"
	"pgregory.net/rapid"

	"verifharness/internal/sched"
	"verifharness/internal/tcpm"
	"verifharness/internal/vh"
)

type ConcCase = tcpm.ConcCase

type concInfo struct {
	contended bool
	steps     int
	lockBusy  int
}

func runConc(c *ConcCase, controlled bool) (f *vh.Failure, info concInfo) {
	S.Guard("TestC12", "concurrent", c, 60*time.Second, func() { f, info = runConc1(c, controlled) })
	return
}

func runConc1(c *ConcCase, controlled bool) (f *vh.Failure, info concInfo) {
	r := &runner{c: c.T, m: tcpm.NewModel(c.T, "tcpassembly"), owner: map[[3]int]*stream{}}
	r.unordered = func(conn, dir int) bool { return !c.Ordered(conn, dir) }
	// a concurrent flusher may skip at any time; without one the sequential oracle applies unchanged
	r.m.Concurrent = len(c.Flushes) > 0
	// every closure comes with a completion callback, so the model follows closes exactly and the completeness
	// audits (nothing withheld, nothing undelivered) apply whatever the flusher does
	exactAudit := true
	pool := tcpassembly.NewStreamPool(r)
	asm := make([]*tcpassembly.Assembler, c.NAsm+1)
	for i := range asm {
		asm[i] = tcpassembly.NewAssembler(pool)
	}
	type pend struct {
		seg *tcpm.Seg
		ts  int64
	}
	pending := make([]*pend, c.NAsm+1)
	var ctl *sched.Controller
	var mu sync.Mutex
	if !controlled {
		r.locked = &mu
		r.noModel = len(c.Flushes) > 0
	}
	arrive := func(i int) {
		if p := pending[i]; p != nil {
			pending[i] = nil
			if c.Ordered(p.seg.Conn, p.seg.Dir) {
				r.lock()
				r.m.Arrive(p.seg, p.ts)
				r.unlock()
			}
		}
	}
	feed := func(i int) func() {
		return func() {
			for k := range c.T.Ops {
				op := &c.T.Ops[k]
				if op.K != "seg" || c.AsmOf(k) != i {
					continue
				}
				pending[i] = &pend{op.Seg, op.Ts}
				if !controlled {
					arrive(i) // no flusher is judged in this mode, so a superset of what the assembler has seen is enough
				}
				nf, t := mkTCP(c.T, op.Seg)
				asm[i].AssembleWithTimestamp(nf, t, ts(op.Ts))
				arrive(i) // ignored without locking a connection
			}
		}
	}
	flusher := func() {
		for _, op := range c.Flushes {
			switch op.K {
			case "flushOlder":
				asm[c.NAsm].FlushOlderThan(ts(op.T))
			case "flushOpts":
				asm[c.NAsm].FlushWithOptions(tcpassembly.FlushOptions{T: ts(op.T), CloseAll: op.TC != 0})
			case "flushAll":
				asm[c.NAsm].FlushAll()
			}
		}
	}
	if controlled {
		ctl = sched.New(c.Schedule)
		ctl.SetTail(c.Tail)
		r.yield = ctl.Yield
		tcpassembly.VerifYieldHook = ctl.Yield
		tcpassembly.VerifLockHook = func(m *sync.Mutex) {
			ctl.BeforeLock(m)
			// The connection lock is free and nobody else runs before this goroutine takes it: from here the
			// packet is processed atomically with respect to every other operation on this connection, so
			// this is the moment it "arrives" for the reference model.
			if id := ctl.CurrentID(); id >= 0 && id < len(pending) {
				arrive(id)
			}
		}
		tcpassembly.VerifPoolLockHook = ctl.BeforeRWLock
		tcpassembly.VerifResetLockHook = ctl.BeforeLock
		oi := 0
		tcpassembly.VerifOrderHook = func(keys []string) []int {
			oi++
			return c.Perm(oi-1, len(keys)) // every order is legal: map iteration order is unspecified
		}
		defer func() {
			tcpassembly.VerifYieldHook, tcpassembly.VerifLockHook, tcpassembly.VerifOrderHook, tcpassembly.VerifPoolLockHook, tcpassembly.VerifResetLockHook = nil, nil, nil, nil, nil
		}()
		for i := 0; i < c.NAsm; i++ {
			ctl.Go(fmt.Sprintf("asm%d", i), feed(i))
		}
		if len(c.Flushes) > 0 {
			ctl.Go("flusher", flusher)
		}
		ctl.Run()
		tcpassembly.VerifYieldHook, tcpassembly.VerifLockHook, tcpassembly.VerifOrderHook, tcpassembly.VerifPoolLockHook, tcpassembly.VerifResetLockHook = nil, nil, nil, nil, nil
		info.steps, info.lockBusy = ctl.Steps, ctl.LockBusyYields
		if os.Getenv("VERIF_TRACE") != "" {
			fmt.Fprintln(os.Stderr, "TRACE", ctl.Trace)
		}
		info.contended = ctl.LockBusyYields > 0
		r.yield = nil
		if ctl.Panic != "" {
			fn, where := vh.InnermostRepoFunc(ctl.Panic)
			return vh.Failf("tcpassembly:panic:"+fn, "panic under schedule %v: %s at %s; trace tail %v", c.Schedule, firstLine(ctl.Panic), where, tail(ctl.Trace, 12)), info
		}
		if ctl.Deadlock {
			return vh.Failf("tcpassembly:deadlock", "no goroutine can make progress but not all finished (schedule %v); trace %v", c.Schedule, untilStuck(ctl.Trace)), info
		}
	} else {
		var wg sync.WaitGroup
		var pmu sync.Mutex
		var pan string
		run := func(fn func()) {
			wg.Add(1)
			go func() {
				defer wg.Done()
				defer func() {
					if v := recover(); v != nil {
						pmu.Lock()
						if pan == "" {
							pan = fmt.Sprintf("%v\n%s", v, debug.Stack())
						}
						pmu.Unlock()
					}
				}()
				fn()
			}()
		}
		for i := 0; i < c.NAsm; i++ {
			run(feed(i))
		}
		if len(c.Flushes) > 0 {
			run(flusher)
		}
		wg.Wait()
		if pan != "" {
			fn, where := vh.InnermostRepoFunc(pan)
			return vh.Failf("tcpassembly:panic:"+fn, "panic with free-running goroutines: %s at %s", firstLine(pan), where), info
		}
	}
	r.locked = nil
	// ---- quiescent: every goroutine has finished ----
	if r.fail == nil && r.m.Failure() == nil && exactAudit && !r.noModel {
		r.m.EndOp() // nothing that arrived in order is withheld
	}
	inPool := map[*stream]bool{}
	for _, s := range tcpassembly.VerifPoolStreams(pool) {
		inPool[s.(*stream)] = true
	}
	r.m.BeginOp(len(c.T.Ops), &tcpm.Op{K: "flushAll"})
	pv, stack := vh.Recover(func() { asm[0].FlushAll() })
	if pv != nil {
		fn, where := vh.InnermostRepoFunc(stack)
		return vh.Failf("tcpassembly:panic:"+fn, "panic in the final FlushAll: %v at %s", pv, where), info
	}
	if r.fail != nil {
		r.fail.Key = "tcpassembly:" + r.fail.Key
		return r.fail, info
	}
	if f := r.m.Failure(); f != nil {
		return vh.Failf("tcpassembly:"+f.Key, "%s (schedule %v)", f.Msg, c.Schedule), info
	}
	for _, s := range r.streams {
		kept := inPool[s] || s.called || s.done > 0
		if kept && s.done != 1 {
			return vh.Failf("tcpassembly:completion-count", "stream %d (conn %d inc %d) was kept by the pool (in pool before the final flush: %v, received callbacks: %v) but completed %d times", s.id, s.conn, s.inc, inPool[s], s.called, s.done), info
		}
	}
	if exactAudit && !r.noModel {
		r.m.AfterFlushAll()
		if f := r.m.Failure(); f != nil {
			return vh.Failf("tcpassembly:"+f.Key, "%s (schedule %v)", f.Msg, c.Schedule), info
		}
	}
	return nil, info
}

// untilStuck cuts a trace where it degenerates into lock-busy reports only.
func untilStuck(tr []string) []string {
	n := len(tr)
	for n > 0 && strings.HasSuffix(tr[n-1], ":lock-busy") {
		n--
	}
	if n+4 < len(tr) {
		return tr[:n+4]
	}
	return tr
}

func firstLine(s string) string {
	if i := strings.IndexByte(s, '\n'); i >= 0 {
		return s[:i]
	}
	return s
}

func tail(s []string, n int) []string {
	if len(s) > n {
		return s[len(s)-n:]
	}
	return s
}

func TestC12(t *testing.T) {
	rapid.Check(t, func(rt *rapid.T) {
		c := tcpm.GenConc(rt, false)
		f, info := runConc(c, true)
		js, _ := json.Marshal(c)
		cls := []string{"controlled", fmt.Sprintf("assemblers-%d", c.NAsm)}
		if info.contended {
			cls = append(cls, "lock-contention-observed")
		}
		if len(c.Flushes) > 0 {
			cls = append(cls, "with-flusher")
		}
		S.Note(vh.Hash64(js), info.contended, cls...)
		S.Class("controller-steps", int64(info.steps))
		if info.contended && len(js) < 2500 && S.WantSample() {
			S.Sample(c)
		}
		S.Check(rt, "TestC12", c, f)
	})
}

func TestC12Race(t *testing.T) {
	rapid.Check(t, func(rt *rapid.T) {
		c := tcpm.GenConc(rt, false)
		c.Schedule = nil
		js, _ := json.Marshal(c)
		S.Note(vh.Hash64(js), true, "race-stress", fmt.Sprintf("assemblers-%d", c.NAsm))
		S.Current("TestC12Race", c)
		f, _ := runConc(c, false)
		S.Check(rt, "TestC12Race", c, f)
	})
}

// TestC12Exhaustive enumerates every schedule up to a bounded number of context switches for fixed two-assembler scenarios.
func TestC12Exhaustive(t *testing.T) {
	sc := tcpm.ExhaustiveScenarios()
	sh, nsh := vh.Shard()
	total, maxDepth := int64(0), 0
	for si, base := range sc {
		if si%nsh != sh {
			continue
		}
		// the first `depth` scheduling decisions take every value; afterwards the lowest runnable goroutine runs
		procs, depth := 2, 9
		if len(base.Flushes) > 0 {
			procs, depth = 3, 6
		}
		if vh.Thorough() {
			depth += 4 - (procs - 2)
		}
		maxDepth = max(maxDepth, depth)
		sched := make([]int, depth)
		for {
			c := *base
			c.Schedule = append([]int(nil), sched...)
			f, info := runConc(&c, true)
			total++
			S.Note(vh.Hash64("exh", si, fmt.Sprint(sched)), info.contended, "exhaustive-schedule")
			S.Check(t, "TestC12", &c, f)
			if t.Failed() {
				return
			}
			i := depth - 1
			for ; i >= 0; i-- {
				if sched[i] < procs-1 {
					sched[i]++
					break
				}
				sched[i] = 0
			}
			if i < 0 {
				break
			}
		}
	}
	S.Extra("exhaustive_schedules_total", total)
	S.Extra("exhaustive_schedule_depth", maxDepth)
}

func init() {
	regressExtra = func(rf *vh.ReplayFile) (bool, *vh.Failure) {
		switch rf.Test {
		case "TestC12", "TestC12Race":
			var c ConcCase
			if err := json.Unmarshal(rf.Case, &c); err != nil {
				return true, vh.Failf("harness", "bad case: %v", err)
			}
			if rf.Test == "TestC12Race" {
				for i := 0; i < 20; i++ {
					if f, _ := runConc(&c, false); f != nil {
						return true, f
					}
				}
				return true, nil
			}
			f, _ := runConc(&c, true)
			return true, f
		}
		return false, nil
	}
}
