// Package tca drives github.com/gopacket/gopacket/tcpassembly with generated workloads and checks
// C10 (in-order exactly-once delivery), C11 (lifecycle/leaks/limits; needs hook H1) against the
// reference model in internal/tcpm.
package tca

import (
	"encoding/json"
	"fmt"
	"os"
	"runtime"
	"sync"
	"sync/atomic"
	"testing"
	"time"

	"github.com/gopacket/gopacket"
	"github.com/gopacket/gopacket/layers"
	"github.com/gopacket/gopacket/tcpassembly"
	"pgregory.net/rapid"

	"verifharness/internal/tcpm"
	"verifharness/internal/vh"
)

func prop() string {
	if p := os.Getenv("VERIF_PROP"); p != "" {
		return p
	}
	return "C10"
}

var S = vh.New(prop())

func TestMain(m *testing.M) { vh.Main(m, S) }

type stream struct {
	r              *runner
	h              *tcpm.Half // nil for late-traffic streams
	conn, dir, inc int
	id             int
	done           int
	called         bool // some callback ran on this stream
	inCallback     atomic.Bool
}

func (s *stream) enter(what string) {
	if !s.inCallback.CompareAndSwap(false, true) {
		s.r.lock()
		s.r.failf("overlap", "callbacks of stream %d overlap (%s while another callback of the same stream is running)", s.id, what)
		s.r.unlock()
	}
	if s.r.yield != nil {
		s.r.yield("callback:" + what)
	} else if s.r.locked != nil {
		runtime.Gosched() // widen the window in which an unserialised second callback would be seen
	}
}

// first notes the first callback of a stream: of the streams created for one key, only the one the pool keeps may
// receive callbacks while it is not completed.
func (s *stream) first() {
	if s.called {
		return
	}
	s.called = true
	k := [3]int{s.conn, s.dir, s.inc}
	if o := s.r.owner[k]; o != nil && o != s && o.done == 0 {
		s.r.failf("two-entries", "two streams of connection %d direction %d (incarnation %d) both receive callbacks: the pool holds two entries for one key", s.conn, s.dir, s.inc)
	}
	s.r.owner[k] = s
}

func (s *stream) Reassembled(rs []tcpassembly.Reassembly) {
	s.enter("Reassembled")
	defer s.inCallback.Store(false)
	s.r.lock()
	defer s.r.unlock()
	s.first()
	if s.done > 0 {
		s.r.failf("data-after-completion", "stream %d received data after ReassemblyComplete", s.id)
	}
	s.r.batches++
	for _, r := range rs {
		if s.h == nil {
			s.r.lateDeliveries++
			continue
		}
		s.r.m.Deliver(s.h, tcpm.Delivery{Skip: r.Skip, New: append([]byte(nil), r.Bytes...), Start: r.Start, End: r.End, KeepFrom: -1})
	}
}

func (s *stream) ReassemblyComplete() {
	s.enter("ReassemblyComplete")
	defer s.inCallback.Store(false)
	s.r.lock()
	defer s.r.unlock()
	s.first()
	s.done++
	if s.done > 1 {
		s.r.failf("completed-twice", "stream %d completed %d times", s.id, s.done)
	}
	if s.h != nil {
		s.r.m.Complete(s.h)
	}
}

type runner struct {
	c                       *tcpm.Case
	m                       *tcpm.Model
	streams                 []*stream
	fail                    *vh.Failure
	op                      int
	batches, lateDeliveries int
	owner                   map[[3]int]*stream
	yield                   func(site string)        // set by the controlled-schedule test (C12)
	locked                  *sync.Mutex              // race-stress mode: serialises the harness' own bookkeeping
	unordered               func(conn, dir int) bool // C12: directions whose packets are spread over assemblers
	noModel                 bool                     // race-stress mode with a flusher: deliveries are not judged
}

func (r *runner) lock() {
	if r.locked != nil {
		r.locked.Lock()
	}
}

func (r *runner) unlock() {
	if r.locked != nil {
		r.locked.Unlock()
	}
}

func (r *runner) failf(key, format string, a ...any) {
	if r.fail == nil {
		r.fail = vh.Failf(key, "op %d: "+format, append([]any{r.op}, a...)...)
	}
}

func (r *runner) New(netFlow, tcpFlow gopacket.Flow) tcpassembly.Stream {
	sp := int(uint16(tcpFlow.Src().Raw()[0])<<8 | uint16(tcpFlow.Src().Raw()[1]))
	dp := int(uint16(tcpFlow.Dst().Raw()[0])<<8 | uint16(tcpFlow.Dst().Raw()[1]))
	dir, cp := 0, sp
	if sp < 10000 {
		dir, cp = 1, dp
	}
	conn, inc := (cp-10000)/64, (cp-10000)%64
	if r.yield != nil {
		r.yield("factory.New")
	}
	r.lock()
	defer r.unlock()
	s := &stream{r: r, id: len(r.streams), conn: conn, dir: dir, inc: inc}
	h := r.m.Half(conn, dir, inc)
	judged := !r.noModel && (r.unordered == nil || !r.unordered(conn, dir))
	if !h.Bound() && judged {
		s.h = h
		r.m.Bind(h)
	}
	r.streams = append(r.streams, s)
	return s
}

func mkTCP(c *tcpm.Case, s *tcpm.Seg) (gopacket.Flow, *layers.TCP) {
	cp, sp := tcpm.Ports(s.Conn, s.Inc)
	src, dst := []byte{10, 0, 0, byte(1 + s.Conn)}, []byte{10, 0, 1, 1}
	t := &layers.TCP{Seq: c.Seq(s), SYN: s.SYN, FIN: s.FIN, RST: s.RST, ACK: !s.SYN}
	if s.Dir == 0 {
		t.SrcPort, t.DstPort = layers.TCPPort(cp), layers.TCPPort(sp)
	} else {
		t.SrcPort, t.DstPort = layers.TCPPort(sp), layers.TCPPort(cp)
		src, dst = dst, src
	}
	t.SetInternalPortsForTesting()
	t.Payload = c.Payload(s)
	return gopacket.NewFlow(layers.EndpointIPv4, src, dst), t
}

func ts(sec int64) time.Time { return time.Unix(1_700_000_000+sec, 0) }

func pagesOf(n int) int {
	if n == 0 {
		return 1
	}
	return (n + 1899) / 1900
}

// run executes the case; lifecycle adds the C11 audits (hook H1).
func run(c *tcpm.Case, lifecycle bool) (f *vh.Failure, m *tcpm.Model, info map[string]bool) {
	test := "Test" + prop()
	S.Guard(test, "assembler", c, 30*time.Second, func() { f, m, info = run1(c, lifecycle) })
	return
}

func run1(c *tcpm.Case, lifecycle bool) (f *vh.Failure, m *tcpm.Model, info map[string]bool) {
	r := &runner{c: c, m: tcpm.NewModel(c, "tcpassembly"), owner: map[[3]int]*stream{}}
	info = map[string]bool{}
	pv, stack := vh.Recover(func() {
		pool := tcpassembly.NewStreamPool(r)
		a := tcpassembly.NewAssembler(pool)
		a.MaxBufferedPagesPerConnection = c.MaxPerConn
		a.MaxBufferedPagesTotal = c.MaxTotal
		maxPkt := 0
		for i := range c.Ops {
			op := &c.Ops[i]
			r.op = i
			r.m.BeginOp(i, op)
			prevLate := r.lateDeliveries
			_ = prevLate
			switch op.K {
			case "seg":
				r.m.Arrive(op.Seg, op.Ts)
				nf, t := mkTCP(c, op.Seg)
				a.AssembleWithTimestamp(nf, t, ts(op.Ts))
				if lifecycle {
					// A queue can only shrink when a packet of its own connection (or a flush) comes: after a large
					// packet it legitimately stays at limit + pages(that packet) while other connections' packets are
					// processed, so the allowance is the largest packet seen so far, not the current one.
					maxPkt = max(maxPkt, pagesOf(op.Seg.Len))
					extra := maxPkt
					if c.MaxTotal > 0 {
						if used := tcpassembly.VerifPagesUsed(a); used > c.MaxTotal+extra {
							r.failf("tcpassembly:3:total-limit", "pages in use %d exceed total limit %d by more than the %d pages of the packet just processed", used, c.MaxTotal, extra)
						}
					}
					if c.MaxPerConn > 0 {
						linked, _ := tcpassembly.VerifConnPages(pool)
						for _, n := range linked {
							if n > c.MaxPerConn+extra {
								r.failf("tcpassembly:3:conn-limit", "a connection holds %d pages, per-connection limit %d, packet just processed has %d pages", n, c.MaxPerConn, extra)
							}
						}
					}
				}
			case "flushOlder":
				a.FlushOlderThan(ts(op.T))
				if lifecycle {
					r.ageAudit(op.T)
				}
			case "flushOpts":
				a.FlushWithOptions(tcpassembly.FlushOptions{T: ts(op.T), CloseAll: op.TC != 0})
				if lifecycle {
					r.ageAudit(op.T)
				}
			case "flushAll":
				a.FlushAll()
				if lifecycle {
					if used := tcpassembly.VerifPagesUsed(a); used != 0 {
						r.failf("tcpassembly:2:pages-leaked", "%d pages still in use after FlushAll", used)
					}
					if conns, _ := tcpassembly.VerifPoolStats(pool); conns != 0 {
						r.failf("tcpassembly:2:conns-left", "%d connections remain in the pool after FlushAll", conns)
					}
					for _, s := range r.streams {
						if s.done != 1 {
							r.failf("tcpassembly:2:completion-count", "stream %d (of %d) completed %d times after FlushAll", s.id, len(r.streams), s.done)
						}
					}
				}
			}
			if lifecycle {
				for _, h := range r.m.Halves() {
					if h.Bound() && !h.Gone && h.FinConsumed() {
						r.failf("tcpassembly:1:fin-not-ending", "conn %d dir %d: the FIN segment ending at offset %d was consumed but no delivery carried End and the stream was not completed", h.Conn, h.Dir, h.Pos())
					}
				}
				linked, counted := tcpassembly.VerifConnPages(pool)
				sum := 0
				for k := range linked {
					sum += linked[k]
					if linked[k] != counted[k] {
						r.failf("tcpassembly:pages-counter", "a connection's page counter says %d but %d pages are linked", counted[k], linked[k])
					}
				}
				if used := tcpassembly.VerifPagesUsed(a); used != sum {
					r.failf("tcpassembly:pages-accounting", "page cache reports %d pages in use, connections hold %d", used, sum)
				}
			}
			r.m.EndOp()
			if r.fail != nil || r.m.Failure() != nil {
				return
			}
		}
		if c.FinalFlushAll {
			r.m.AfterFlushAll()
		}
		if len(r.streams) > 1 {
			info["multi-stream"] = true
		}
		if r.lateDeliveries > 0 {
			info["late-traffic-stream"] = true
		}
	})
	if pv != nil {
		fn, where := vh.InnermostRepoFunc(stack)
		return vh.Failf("panic:"+fn, "op %d: panic %v at %s", r.op, pv, where), r.m, info
	}
	f = r.fail
	if f == nil {
		f = r.m.Failure()
	}
	if f != nil && r.m.SynPayloadLate {
		f = vh.Failf("syn-payload-after-start", "[history contains a payload-bearing SYN arriving after its direction's position was fixed] %s: %s", f.Key, f.Msg)
	}
	return f, r.m, info
}

// ageAudit: after an age flush with cut-off T no open half is still waiting in front of data that is entirely older than T.
func (r *runner) ageAudit(T int64) {
	for _, h := range r.m.Halves() {
		if !h.Bound() || h.Closed || h.Gone {
			continue
		}
		if x, newest, ok := h.FirstWithheld(); ok && newest < T {
			r.failf("tcpassembly:4:age-flush-left-old-data", "after flushing older than %d, conn %d dir %d still withholds offset %d whose newest covering segment has timestamp %d", T, h.Conn, h.Dir, x, newest)
		}
	}
}

func note(c *tcpm.Case, m *tcpm.Model, info map[string]bool, extra ...string) {
	nt, cls := m.Classes()
	for k := range info {
		cls = append(cls, k)
	}
	cls = append(cls, extra...)
	if c.MaxPerConn > 0 || c.MaxTotal > 0 {
		cls = append(cls, "has-limit")
	}
	js, _ := json.Marshal(c)
	S.Note(vh.Hash64(js), nt, cls...)
	if nt && len(js) < 2500 && S.WantSample() {
		S.Sample(c)
	}
}

func TestC10(t *testing.T) {
	o := tcpm.GenOpts{MaxConns: 2, MaxStream: 20000, MaxSegs: 24, BothDirs: true, Limits: true, MidFlush: true, SynPayload: true}
	if vh.Thorough() {
		o.MaxStream, o.MaxSegs = 200000, 200
	}
	rapid.Check(t, func(rt *rapid.T) {
		c := tcpm.Gen(rt, o)
		f, m, info := run(c, false)
		note(c, m, info)
		S.Check(rt, "TestC10", c, f)
	})
}

func TestC11(t *testing.T) {
	o := tcpm.GenOpts{MaxConns: 6, MaxStream: 9000, MaxSegs: 12, BothDirs: true, Limits: true, MidFlush: true, Reopen: true}
	if vh.Thorough() {
		o.MaxConns, o.MaxSegs = 12, 40
	}
	rapid.Check(t, func(rt *rapid.T) {
		c := tcpm.Gen(rt, o)
		f, m, info := run(c, true)
		nt := len(c.Conns) >= 2
		_ = nt
		note(c, m, info, fmt.Sprintf("conns-%d", min(len(c.Conns), 4)))
		S.Check(rt, "TestC11", c, f)
	})
}

func TestRegress(t *testing.T) {
	S.Regress(t, func(rf *vh.ReplayFile) (bool, *vh.Failure) {
		var c tcpm.Case
		if err := json.Unmarshal(rf.Case, &c); err != nil {
			t.Fatal(err)
		}
		switch rf.Test {
		case "TestC10":
			f, _, _ := run(&c, false)
			return true, f
		case "TestC11":
			f, _, _ := run(&c, true)
			return true, f
		}
		if regressExtra != nil {
			return regressExtra(rf)
		}
		return false, nil
	})
}

var regressExtra func(rf *vh.ReplayFile) (bool, *vh.Failure)
