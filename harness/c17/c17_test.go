// Package c17 checks property C17: flows and endpoints are faithful, hashable,
// direction-symmetric values (DESIGN.md §5 C17). Oracle: algebraic laws + per-layer address table.
package c17

import (
	"bytes"
	"encoding/binary"
	"encoding/json"
	"fmt"
	"reflect"
	"testing"

	"github.com/gopacket/gopacket"
	"github.com/gopacket/gopacket/layers"
	"pgregory.net/rapid"

	"verifharness/internal/vh"
)

var S = vh.New("C17")

func TestMain(m *testing.M) { vh.Main(m, S) }

// EP is a generated endpoint description.
type EP struct {
	T   int64  `json:"t"`
	Raw []byte `json:"raw"`
}

// AlgCase: up to three endpoints for the algebraic laws.
type AlgCase struct {
	E []EP `json:"e"`
}

func mk(e EP) (ep gopacket.Endpoint, panicked bool) {
	pv, _ := vh.Recover(func() { ep = gopacket.NewEndpoint(gopacket.EndpointType(e.T), e.Raw) })
	return ep, pv != nil
}

func refLess(a, b EP) bool {
	return a.T < b.T || (a.T == b.T && bytes.Compare(a.Raw, b.Raw) < 0)
}
func refEq(a, b EP) bool { return a.T == b.T && bytes.Equal(a.Raw, b.Raw) }

func runAlg(c *AlgCase) *vh.Failure {
	eps := make([]gopacket.Endpoint, len(c.E))
	for i, e := range c.E {
		raw := append([]byte(nil), e.Raw...)
		ep, p := mk(EP{e.T, raw})
		if p != (len(e.Raw) > gopacket.MaxEndpointSize) {
			return vh.Failf("new-endpoint-panic", "NewEndpoint(len %d) panicked=%v", len(e.Raw), p)
		}
		if p {
			// NewFlow must reject too
			for _, side := range []int{0, 1} {
				pv, _ := vh.Recover(func() {
					if side == 0 {
						gopacket.NewFlow(gopacket.EndpointType(e.T), raw, nil)
					} else {
						gopacket.NewFlow(gopacket.EndpointType(e.T), nil, raw)
					}
				})
				if pv == nil {
					return vh.Failf("new-flow-panic", "NewFlow accepted %d-byte address on side %d", len(raw), side)
				}
			}
			return nil
		}
		// value semantics: later mutation of the caller's slice does not matter
		for j := range raw {
			raw[j] ^= 0xff
		}
		if !bytes.Equal(ep.Raw(), e.Raw) || int64(ep.EndpointType()) != e.T {
			return vh.Failf("endpoint-faithful", "endpoint %v: Raw()=%x type=%d", e, ep.Raw(), ep.EndpointType())
		}
		r := ep.Raw()
		for j := range r {
			r[j] ^= 0xff
		}
		if !bytes.Equal(ep.Raw(), e.Raw) {
			return vh.Failf("endpoint-faithful", "writing through Raw() changed endpoint %v", e)
		}
		eps[i] = ep
	}
	for i := range eps {
		for j := range eps {
			a, b := eps[i], eps[j]
			eq := a == b
			if eq != refEq(c.E[i], c.E[j]) {
				return vh.Failf("equality", "%v == %v is %v", c.E[i], c.E[j], eq)
			}
			m := map[gopacket.Endpoint]int{a: 1}
			if _, ok := m[b]; ok != eq {
				return vh.Failf("map-key", "map lookup of %v in {%v}: %v, == says %v", c.E[j], c.E[i], ok, eq)
			}
			if eq && a.FastHash() != b.FastHash() {
				return vh.Failf("endpoint-hash", "equal endpoints %v hash differently", c.E[i])
			}
			lt, gt := a.LessThan(b), b.LessThan(a)
			if lt != refLess(c.E[i], c.E[j]) {
				return vh.Failf("order", "%v < %v is %v, reference %v", c.E[i], c.E[j], lt, !lt)
			}
			n := 0
			for _, x := range []bool{lt, gt, eq} {
				if x {
					n++
				}
			}
			if n != 1 {
				return vh.Failf("order-total", "%v vs %v: lt=%v gt=%v eq=%v", c.E[i], c.E[j], lt, gt, eq)
			}
			for k := range eps {
				if lt && eps[j].LessThan(eps[k]) && !a.LessThan(eps[k]) {
					return vh.Failf("order-transitive", "%v<%v<%v but not %v<%v", c.E[i], c.E[j], c.E[k], c.E[i], c.E[k])
				}
			}
			// flows
			f, err := gopacket.FlowFromEndpoints(a, b)
			if (err != nil) != (c.E[i].T != c.E[j].T) {
				return vh.Failf("flow-type-mismatch", "FlowFromEndpoints(%v,%v) err=%v", c.E[i], c.E[j], err)
			}
			if err != nil {
				continue
			}
			s, d := f.Endpoints()
			if s != a || d != b || f.Src() != a || f.Dst() != b {
				return vh.Failf("flow-endpoints", "flow of (%v,%v) returns endpoints (%v,%v)", c.E[i], c.E[j], s, d)
			}
			f2, err := gopacket.FlowFromEndpoints(f.Endpoints())
			if err != nil || f2 != f {
				return vh.Failf("flow-split-join", "split/join of flow (%v,%v) differs", c.E[i], c.E[j])
			}
			nf := gopacket.NewFlow(gopacket.EndpointType(c.E[i].T), c.E[i].Raw, c.E[j].Raw)
			if nf != f || int64(f.EndpointType()) != c.E[i].T {
				return vh.Failf("newflow", "NewFlow != FlowFromEndpoints for (%v,%v)", c.E[i], c.E[j])
			}
			r := f.Reverse()
			if r.Reverse() != f {
				return vh.Failf("reverse-twice", "reverse twice of (%v,%v)", c.E[i], c.E[j])
			}
			if r.Src() != f.Dst() || r.Dst() != f.Src() {
				return vh.Failf("reverse", "reverse of (%v,%v) has endpoints (%v,%v)", c.E[i], c.E[j], r.Src(), r.Dst())
			}
			rr, _ := gopacket.FlowFromEndpoints(b, a)
			if r != rr {
				return vh.Failf("reverse", "Reverse() of (%v,%v) != flow built the other way round", c.E[i], c.E[j])
			}
			if r.FastHash() != f.FastHash() {
				return vh.Failf("flow-hash-symmetric", "FastHash of (%v,%v) differs from reverse", c.E[i], c.E[j])
			}
			mf := map[gopacket.Flow]int{f: 1}
			if _, ok := mf[r]; ok != (a == b) {
				return vh.Failf("flow-map-key", "flow (%v,%v) vs its reverse as map keys: %v", c.E[i], c.E[j], ok)
			}
		}
	}
	return nil
}

func genEP(t *rapid.T, base []byte) EP {
	var e EP
	switch rapid.IntRange(0, 5).Draw(t, "tk") {
	case 0, 1, 2:
		e.T = int64(rapid.IntRange(0, 10).Draw(t, "t"))
	case 3:
		e.T = rapid.Int64().Draw(t, "t")
	default:
		e.T = int64(rapid.SampledFrom([]int{1, 3, 4}).Draw(t, "t"))
	}
	n := rapid.IntRange(0, 16).Draw(t, "len")
	if rapid.IntRange(0, 30).Draw(t, "big") == 0 {
		n = rapid.IntRange(17, 64).Draw(t, "biglen")
	}
	e.Raw = make([]byte, n)
	// shared prefix with base, then small alphabet incl. zero (trailing zeros are the interesting case)
	k := rapid.IntRange(0, n).Draw(t, "prefix")
	for i := 0; i < n; i++ {
		if i < k && i < len(base) {
			e.Raw[i] = base[i]
		} else {
			e.Raw[i] = rapid.SampledFrom([]byte{0, 0, 1, 0xff, 7}).Draw(t, "b")
		}
	}
	return e
}

func TestAlgebra(t *testing.T) {
	rapid.Check(t, func(rt *rapid.T) {
		base := rapid.SliceOfN(rapid.SampledFrom([]byte{0, 1, 0xff}), 16, 16).Draw(rt, "base")
		c := &AlgCase{}
		n := rapid.IntRange(2, 3).Draw(rt, "n")
		for i := 0; i < n; i++ {
			c.E = append(c.E, genEP(rt, base))
		}
		nt := false
		for i := range c.E {
			for j := range c.E {
				if i != j && c.E[i].T == c.E[j].T && len(c.E[i].Raw) != len(c.E[j].Raw) {
					m := min(len(c.E[i].Raw), len(c.E[j].Raw))
					if bytes.Equal(c.E[i].Raw[:m], c.E[j].Raw[:m]) {
						nt = true
					}
				}
			}
		}
		cls := []string{"alg"}
		if nt {
			cls = append(cls, "alg-shared-prefix-different-length")
		}
		S.Note(vh.Hash64(fmt.Sprint(c.E)), nt, cls...)
		if nt && S.WantSample() {
			S.Sample(c)
		}
		S.Check(rt, "TestAlgebra", c, runAlg(c))
	})
}

// TestAlgebraExhaustive: all endpoints over alphabet {0,1} of length 0..L, all pairs (triples for short ones).
func TestAlgebraExhaustive(t *testing.T) {
	var all []EP
	maxLen := 5
	if vh.Thorough() {
		maxLen = 7
	}
	for _, typ := range []int64{1, 2} {
		for n := 0; n <= maxLen; n++ {
			for v := 0; v < 1<<n; v++ {
				raw := make([]byte, n)
				for i := range raw {
					raw[i] = byte(v >> i & 1)
				}
				all = append(all, EP{typ, raw})
			}
		}
		// long ones: length 15,16 with differences only in the last bytes / trailing zeros
		for _, n := range []int{15, 16} {
			for v := 0; v < 4; v++ {
				raw := make([]byte, n)
				raw[n-1] = byte(v & 1)
				raw[n-2] = byte(v >> 1)
				all = append(all, EP{typ, raw})
			}
		}
	}
	cnt := int64(0)
	for i := range all {
		for j := range all {
			c := &AlgCase{E: []EP{all[i], all[j]}}
			cnt++
			nt := all[i].T == all[j].T && len(all[i].Raw) != len(all[j].Raw)
			S.Note(vh.Hash64(fmt.Sprint(c.E)), nt, "alg-exhaustive-pair")
			S.Check(t, "TestAlgebra", c, runAlg(c))
			if t.Failed() {
				return
			}
		}
	}
	S.Extra("exhaustive_pairs_total", cnt)
	S.Extra("exhaustive_alphabet", "{0,1} lengths 0..L plus lengths 15,16; 2 types; all ordered pairs")
}

// ---- layer correspondence ----

// PktCase is one conversation: per-layer addresses placed at known offsets; decoded in both directions.
type PktCase struct {
	Layer   string `json:"layer"`
	A       []byte `json:"a"` // address/port slot 1
	B       []byte `json:"b"` // address/port slot 2
	Payload []byte `json:"payload"`
	AddrLen int    `json:"addr_len,omitempty"` // SLL/SLL2
}

type spec struct {
	lt       gopacket.LayerType
	alen     int
	et       gopacket.EndpointType
	build    func(a, b, payload []byte, c *PktCase) []byte
	srcField string
	dstField string
	oneSided bool
	constant bool
}

func be16(v int) []byte { b := make([]byte, 2); binary.BigEndian.PutUint16(b, uint16(v)); return b }

var specs = map[string]*spec{
	"Ethernet": {lt: layers.LayerTypeEthernet, alen: 6, et: layers.EndpointMAC, srcField: "SrcMAC", dstField: "DstMAC",
		build: func(a, b, p []byte, _ *PktCase) []byte { return cat(a, b, []byte{0x88, 0xb5}, p) }},
	"FDDI": {lt: layers.LayerTypeFDDI, alen: 6, et: layers.EndpointMAC, srcField: "SrcMAC", dstField: "DstMAC",
		build: func(a, b, p []byte, _ *PktCase) []byte { return cat([]byte{0x00}, a, b, p) }},
	"IPv4": {lt: layers.LayerTypeIPv4, alen: 4, et: layers.EndpointIPv4, srcField: "SrcIP", dstField: "DstIP",
		build: func(a, b, p []byte, _ *PktCase) []byte {
			h := []byte{0x45, 0, 0, 0, 0, 1, 0, 0, 64, 253, 0, 0}
			binary.BigEndian.PutUint16(h[2:], uint16(20+len(p)))
			return cat(h, a, b, p)
		}},
	"IPv6": {lt: layers.LayerTypeIPv6, alen: 16, et: layers.EndpointIPv6, srcField: "SrcIP", dstField: "DstIP",
		build: func(a, b, p []byte, _ *PktCase) []byte {
			h := []byte{0x60, 0, 0, 0, 0, 0, 59, 64}
			binary.BigEndian.PutUint16(h[4:], uint16(len(p)))
			return cat(h, a, b, p)
		}},
	"TCP": {lt: layers.LayerTypeTCP, alen: 2, et: layers.EndpointTCPPort, srcField: "SrcPort", dstField: "DstPort",
		build: func(a, b, p []byte, _ *PktCase) []byte {
			return cat(a, b, []byte{0, 0, 0, 1, 0, 0, 0, 2, 0x50, 0x10, 0xff, 0xff, 0, 0, 0, 0}, p)
		}},
	"UDP": {lt: layers.LayerTypeUDP, alen: 2, et: layers.EndpointUDPPort, srcField: "SrcPort", dstField: "DstPort",
		build: func(a, b, p []byte, _ *PktCase) []byte { return cat(a, b, be16(8+len(p)), []byte{0, 0}, p) }},
	"UDPLite": {lt: layers.LayerTypeUDPLite, alen: 2, et: layers.EndpointUDPLitePort, srcField: "SrcPort", dstField: "DstPort",
		build: func(a, b, p []byte, _ *PktCase) []byte { return cat(a, b, be16(8), []byte{0, 0}, p) }},
	"SCTP": {lt: layers.LayerTypeSCTP, alen: 2, et: layers.EndpointSCTPPort, srcField: "SrcPort", dstField: "DstPort",
		build: func(a, b, p []byte, _ *PktCase) []byte { return cat(a, b, []byte{0, 0, 0, 1, 0, 0, 0, 0}) }},
	"RUDP": {lt: layers.LayerTypeRUDP, alen: 1, et: layers.EndpointRUDPPort, srcField: "SrcPort", dstField: "DstPort",
		build: func(a, b, p []byte, _ *PktCase) []byte {
			return cat([]byte{0x40, 9}, a, b, be16(len(p)), []byte{0, 0, 0, 1, 0, 0, 0, 2, 0, 0, 0, 0}, p)
		}},
	"LinuxSLL": {lt: layers.LayerTypeLinuxSLL, alen: 8, et: layers.EndpointMAC, srcField: "Addr", oneSided: true,
		build: func(a, b, p []byte, c *PktCase) []byte {
			return cat([]byte{0, 0, 0, 1}, be16(c.AddrLen), a, []byte{0x88, 0xb5}, p)
		}},
	"LinuxSLL2": {lt: layers.LayerTypeLinuxSLL2, alen: 8, et: layers.EndpointMAC, srcField: "Addr", oneSided: true,
		build: func(a, b, p []byte, c *PktCase) []byte {
			return cat([]byte{0x88, 0xb5, 0, 0, 0, 0, 0, 2, 0, 1, 0, byte(c.AddrLen)}, a, p)
		}},
	"PPP": {lt: layers.LayerTypePPP, alen: 0, et: layers.EndpointPPP, constant: true,
		build: func(a, b, p []byte, _ *PktCase) []byte { return cat([]byte{0x00, 0x21}, p) }},
}

func cat(parts ...[]byte) []byte {
	var out []byte
	for _, p := range parts {
		out = append(out, p...)
	}
	return out
}

func fieldBytes(l gopacket.Layer, name string) ([]byte, bool) {
	v := reflect.ValueOf(l).Elem().FieldByName(name)
	if !v.IsValid() {
		return nil, false
	}
	switch v.Kind() {
	case reflect.Slice:
		return v.Bytes(), true
	case reflect.Uint16:
		return be16(int(v.Uint())), true
	case reflect.Uint8:
		return []byte{byte(v.Uint())}, true
	}
	return nil, false
}

func flowOf(l gopacket.Layer) (gopacket.Flow, string, bool) {
	switch x := l.(type) {
	case gopacket.LinkLayer:
		return x.LinkFlow(), "link", true
	case gopacket.NetworkLayer:
		return x.NetworkFlow(), "network", true
	case gopacket.TransportLayer:
		return x.TransportFlow(), "transport", true
	}
	return gopacket.Flow{}, "", false
}

func decodeOne(sp *spec, data []byte, lazy bool) (gopacket.Layer, gopacket.Packet) {
	p := gopacket.NewPacket(data, sp.lt, gopacket.DecodeOptions{Lazy: lazy, DecodeStreamsAsDatagrams: true})
	l := p.Layer(sp.lt)
	return l, p
}

func runPkt(c *PktCase) (f *vh.Failure) {
	sp := specs[c.Layer]
	if sp == nil {
		return vh.Failf("harness", "unknown layer %s", c.Layer)
	}
	pv, stack := vh.Recover(func() { f = runPkt1(sp, c) })
	if pv != nil {
		fn, where := vh.InnermostRepoFunc(stack)
		return vh.Failf("panic:"+fn, "%s: panic %v at %s", c.Layer, pv, where)
	}
	return f
}

func runPkt1(sp *spec, c *PktCase) *vh.Failure {
	fwd := sp.build(c.A, c.B, c.Payload, c)
	rev := sp.build(c.B, c.A, c.Payload, c)
	var flows [2]gopacket.Flow
	for dir, data := range [][]byte{fwd, rev} {
		for _, lazy := range []bool{false, true} {
			l, p := decodeOne(sp, data, lazy)
			if l == nil {
				return vh.Failf("layer:"+c.Layer+":decode", "layer not decoded from %x: %v", data, p.ErrorLayer())
			}
			fl, level, ok := flowOf(l)
			if !ok {
				return vh.Failf("layer:"+c.Layer+":noflow", "layer exposes no flow")
			}
			// the packet-level shortcut must return the same layer
			switch level {
			case "link":
				if p.LinkLayer() == nil || p.LinkLayer().LinkFlow() != fl {
					return vh.Failf("layer:"+c.Layer+":packet-shortcut", "LinkLayer() flow differs")
				}
			case "network":
				if p.NetworkLayer() == nil || p.NetworkLayer().NetworkFlow() != fl {
					return vh.Failf("layer:"+c.Layer+":packet-shortcut", "NetworkLayer() flow differs")
				}
			case "transport":
				if p.TransportLayer() == nil || p.TransportLayer().TransportFlow() != fl {
					return vh.Failf("layer:"+c.Layer+":packet-shortcut", "TransportLayer() flow differs")
				}
			}
			if fl.EndpointType() != sp.et {
				return vh.Failf("layer:"+c.Layer+":type", "flow type %v want %v", fl.EndpointType(), sp.et)
			}
			if sp.constant {
				if fl != layers.PPPFlow {
					return vh.Failf("layer:"+c.Layer+":constant", "PPP flow is %v", fl)
				}
				flows[dir] = fl
				continue
			}
			// (a) the flow carries exactly the layer's exported address fields
			wantSrc, ok1 := fieldBytes(l, sp.srcField)
			if !ok1 {
				return vh.Failf("harness", "no field %s on %s", sp.srcField, c.Layer)
			}
			if sp.oneSided && len(wantSrc) > gopacket.MaxEndpointSize {
				wantSrc = wantSrc[:gopacket.MaxEndpointSize] // documented truncation
			}
			if !bytes.Equal(fl.Src().Raw(), wantSrc) {
				return vh.Failf("layer:"+c.Layer+":src", "flow src %x, layer field %s = %x", fl.Src().Raw(), sp.srcField, wantSrc)
			}
			if sp.oneSided {
				if len(fl.Dst().Raw()) != 0 {
					return vh.Failf("layer:"+c.Layer+":dst", "one-sided flow has dst %x", fl.Dst().Raw())
				}
			} else {
				wantDst, _ := fieldBytes(l, sp.dstField)
				if !bytes.Equal(fl.Dst().Raw(), wantDst) {
					return vh.Failf("layer:"+c.Layer+":dst", "flow dst %x, layer field %s = %x", fl.Dst().Raw(), sp.dstField, wantDst)
				}
			}
			// (b) the fields are the bytes that are on the wire (independent of the decoder's naming):
			// the two slots of this direction, in either naming order
			slot1, slot2 := c.A, c.B
			if dir == 1 {
				slot1, slot2 = c.B, c.A
			}
			if sp.oneSided {
				n := c.AddrLen
				want := slot1
				if n < len(want) {
					want = want[:n]
				}
				if n <= len(slot1) && !bytes.Equal(fl.Src().Raw(), want) {
					return vh.Failf("layer:"+c.Layer+":wire", "flow src %x, wire address %x (len %d)", fl.Src().Raw(), slot1, n)
				}
			} else {
				s, d := fl.Src().Raw(), fl.Dst().Raw()
				if !(bytes.Equal(s, slot1) && bytes.Equal(d, slot2)) && !(bytes.Equal(s, slot2) && bytes.Equal(d, slot1)) {
					return vh.Failf("layer:"+c.Layer+":wire", "flow %x->%x, wire slots %x,%x", s, d, slot1, slot2)
				}
			}
			if lazy && fl != flows[dir] {
				return vh.Failf("layer:"+c.Layer+":lazy", "lazy and eager flows differ")
			}
			flows[dir] = fl
		}
	}
	if !sp.oneSided && !sp.constant {
		if flows[0].Reverse() != flows[1] {
			return vh.Failf("layer:"+c.Layer+":direction", "directions not mutually reversed: %v vs %v", flows[0], flows[1])
		}
	}
	if !sp.oneSided && flows[0].FastHash() != flows[1].FastHash() {
		return vh.Failf("layer:"+c.Layer+":hash", "directions hash differently")
	}
	return nil
}

var layerNames = func() []string {
	var n []string
	for k := range specs {
		n = append(n, k)
	}
	// deterministic order
	for i := range n {
		for j := i + 1; j < len(n); j++ {
			if n[j] < n[i] {
				n[i], n[j] = n[j], n[i]
			}
		}
	}
	return n
}()

func TestLayers(t *testing.T) {
	rapid.Check(t, func(rt *rapid.T) {
		c := &PktCase{Layer: rapid.SampledFrom(layerNames).Draw(rt, "layer")}
		sp := specs[c.Layer]
		gb := rapid.SampledFrom([]byte{0, 0, 1, 0xff, 0x80, 7, 0x45})
		c.A = rapid.SliceOfN(gb, sp.alen, sp.alen).Draw(rt, "a")
		c.B = rapid.SliceOfN(gb, sp.alen, sp.alen).Draw(rt, "b")
		if rapid.IntRange(0, 3).Draw(rt, "rnd") == 0 {
			c.A = rapid.SliceOfN(rapid.Byte(), sp.alen, sp.alen).Draw(rt, "a2")
		}
		c.Payload = rapid.SliceOfN(rapid.Byte(), 0, 24).Draw(rt, "payload")
		if sp.oneSided {
			c.AddrLen = rapid.IntRange(0, 8).Draw(rt, "addrlen")
		}
		nt := !bytes.Equal(c.A, c.B) && !sp.constant
		S.Note(vh.Hash64(c.Layer, c.A, c.B, c.Payload, c.AddrLen), nt, "layer:"+c.Layer)
		if nt && S.WantSample() {
			S.Sample(c)
		}
		S.Check(rt, "TestLayers", c, runPkt(c))
	})
}

// StackCase: a full Ethernet/IP/transport conversation in both directions.
type StackCase struct {
	V6      bool   `json:"v6"`
	Proto   string `json:"proto"` // TCP UDP SCTP UDPLite
	MacA    []byte `json:"mac_a"`
	MacB    []byte `json:"mac_b"`
	IPA     []byte `json:"ip_a"`
	IPB     []byte `json:"ip_b"`
	PA      []byte `json:"port_a"`
	PB      []byte `json:"port_b"`
	Payload []byte `json:"payload"`
}

func buildStack(c *StackCase, rev bool) []byte {
	macA, macB, ipA, ipB, pA, pB := c.MacA, c.MacB, c.IPA, c.IPB, c.PA, c.PB
	if rev {
		macA, macB, ipA, ipB, pA, pB = macB, macA, ipB, ipA, pB, pA
	}
	var tr []byte
	var proto byte
	switch c.Proto {
	case "TCP":
		tr, proto = specs["TCP"].build(pA, pB, c.Payload, nil), 6
	case "UDP":
		tr, proto = specs["UDP"].build(pA, pB, c.Payload, nil), 17
	case "SCTP":
		tr, proto = specs["SCTP"].build(pA, pB, nil, nil), 132
	case "UDPLite":
		tr, proto = specs["UDPLite"].build(pA, pB, c.Payload, nil), 136
	}
	var ip []byte
	et := []byte{0x08, 0x00}
	if c.V6 {
		h := []byte{0x60, 0, 0, 0, 0, 0, proto, 64}
		binary.BigEndian.PutUint16(h[4:], uint16(len(tr)))
		ip = cat(h, ipA, ipB, tr)
		et = []byte{0x86, 0xdd}
	} else {
		h := []byte{0x45, 0, 0, 0, 0, 1, 0, 0, 64, proto, 0, 0}
		binary.BigEndian.PutUint16(h[2:], uint16(20+len(tr)))
		ip = cat(h, ipA, ipB, tr)
	}
	// eth: dst first on the wire
	return cat(macB, macA, et, ip)
}

func runStack(c *StackCase) (f *vh.Failure) {
	pv, stack := vh.Recover(func() {
		var fl [2][3]gopacket.Flow
		for dir := 0; dir < 2; dir++ {
			p := gopacket.NewPacket(buildStack(c, dir == 1), layers.LayerTypeEthernet, gopacket.Default)
			if p.LinkLayer() == nil || p.NetworkLayer() == nil || p.TransportLayer() == nil {
				f = vh.Failf("stack:decode", "stack did not decode: %v", p)
				return
			}
			fl[dir] = [3]gopacket.Flow{p.LinkLayer().LinkFlow(), p.NetworkLayer().NetworkFlow(), p.TransportLayer().TransportFlow()}
		}
		macA, ipA, pA, macB, ipB, pB := c.MacA, c.IPA, c.PA, c.MacB, c.IPB, c.PB
		want := [3][2][]byte{{macA, macB}, {ipA, ipB}, {pA, pB}}
		names := []string{"link", "network", "transport"}
		for lvl := 0; lvl < 3; lvl++ {
			a := fl[0][lvl]
			if !bytes.Equal(a.Src().Raw(), want[lvl][0]) || !bytes.Equal(a.Dst().Raw(), want[lvl][1]) {
				f = vh.Failf("stack:"+names[lvl]+":addresses", "%s flow %x->%x want %x->%x", names[lvl], a.Src().Raw(), a.Dst().Raw(), want[lvl][0], want[lvl][1])
				return
			}
			if a.Reverse() != fl[1][lvl] {
				f = vh.Failf("stack:"+names[lvl]+":direction", "%s flows of the two directions are not mutually reversed: %v / %v", names[lvl], a, fl[1][lvl])
				return
			}
			if a.FastHash() != fl[1][lvl].FastHash() {
				f = vh.Failf("stack:"+names[lvl]+":hash", "%s flow hashes differ between directions", names[lvl])
				return
			}
		}
	})
	if pv != nil {
		fn, where := vh.InnermostRepoFunc(stack)
		return vh.Failf("panic:"+fn, "panic %v at %s", pv, where)
	}
	return f
}

func TestStacks(t *testing.T) {
	rapid.Check(t, func(rt *rapid.T) {
		c := &StackCase{V6: rapid.Bool().Draw(rt, "v6"), Proto: rapid.SampledFrom([]string{"TCP", "UDP", "SCTP", "UDPLite"}).Draw(rt, "proto")}
		ipl := 4
		if c.V6 {
			ipl = 16
		}
		gb := rapid.Byte()
		c.MacA = rapid.SliceOfN(gb, 6, 6).Draw(rt, "maca")
		c.MacB = rapid.SliceOfN(gb, 6, 6).Draw(rt, "macb")
		c.IPA = rapid.SliceOfN(gb, ipl, ipl).Draw(rt, "ipa")
		c.IPB = rapid.SliceOfN(gb, ipl, ipl).Draw(rt, "ipb")
		c.PA = rapid.SliceOfN(gb, 2, 2).Draw(rt, "pa")
		c.PB = rapid.SliceOfN(gb, 2, 2).Draw(rt, "pb")
		c.Payload = rapid.SliceOfN(gb, 0, 40).Draw(rt, "payload")
		S.Note(vh.Hash64(fmt.Sprintf("%+v", *c)), true, "stack:"+c.Proto)
		if S.WantSample() {
			S.Sample(c)
		}
		S.Check(rt, "TestStacks", c, runStack(c))
	})
}

func TestRegress(t *testing.T) {
	S.Regress(t, func(rf *vh.ReplayFile) (bool, *vh.Failure) {
		switch rf.Test {
		case "TestAlgebra":
			var c AlgCase
			if err := json.Unmarshal(rf.Case, &c); err != nil {
				t.Fatal(err)
			}
			return true, runAlg(&c)
		case "TestLayers":
			var c PktCase
			if err := json.Unmarshal(rf.Case, &c); err != nil {
				t.Fatal(err)
			}
			return true, runPkt(&c)
		case "TestStacks":
			var c StackCase
			if err := json.Unmarshal(rf.Case, &c); err != nil {
				t.Fatal(err)
			}
			return true, runStack(&c)
		}
		return false, nil
	})
}
