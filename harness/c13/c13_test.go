// Package c13 checks property C13: IP defragmentation returns the original datagram exactly once,
// or nothing (DESIGN.md §5 C13). Oracle: a set-based reference reassembler + byte provenance.
package c13

import (
	"bytes"
	"encoding/json"
	"fmt"
	"net"
	"sort"
	"testing"
	"time"

	"github.com/gopacket/gopacket"
	"github.com/gopacket/gopacket/ip4defrag"
	"github.com/gopacket/gopacket/ip6defrag"
	"github.com/gopacket/gopacket/layers"
	"pgregory.net/rapid"

	"verifharness/internal/vh"
)

var S = vh.New("C13")

func TestMain(m *testing.M) { vh.Main(m, S) }

type Datagram struct {
	ID     uint32 `json:"id"`
	Src    byte   `json:"src"` // last byte of 10.0.0.x
	Dst    byte   `json:"dst"`
	Rev    bool   `json:"rev,omitempty"` // addresses swapped: the datagram travels from 10.0.1.Dst to 10.0.0.Src
	Len    int    `json:"len"`           // payload length
	Salt   byte   `json:"salt"`
	OptLen int    `json:"opt_len"` // option bytes in the first fragment's header (multiple of 4)
	Cuts   []int  `json:"cuts"`    // cut points in 8-byte units, ascending, in (0, ceil(Len/8))
}

// Op is one call in arrival order.
type Op struct {
	K      string `json:"k"`             // frag | whole | df | discard
	D      int    `json:"d,omitempty"`   // datagram index
	F      int    `json:"f,omitempty"`   // fragment index within the partition
	OptLen int    `json:"opt,omitempty"` // option bytes of this fragment's header
	Ts     int64  `json:"ts"`            // seconds
	// hostile overrides
	Off     *int  `json:"off,omitempty"`     // byte offset (multiple of 8)
	Size    *int  `json:"size,omitempty"`    // payload bytes
	Last    *bool `json:"last,omitempty"`    // MF clear
	Corrupt bool  `json:"corrupt,omitempty"` // content differs from the original at these offsets
	Evil    bool  `json:"evil,omitempty"`    // the reserved flag bit is set (it means nothing for fragmentation)
}

type Case struct {
	V6        bool       `json:"v6"`
	Hostile   bool       `json:"hostile"`
	Datagrams []Datagram `json:"datagrams"`
	Ops       []Op       `json:"ops"`
}

func content(d *Datagram, off, n int, corrupt bool) []byte {
	b := make([]byte, n)
	for i := range b {
		p := off + i
		b[i] = byte(p*7+p>>8*13) ^ d.Salt ^ byte(p>>16)
		if corrupt {
			b[i] ^= 0x55
		}
	}
	return b
}

func (d *Datagram) frags() [][2]int { // (offset, size) in bytes
	var out [][2]int
	prev := 0
	for _, c := range d.Cuts {
		out = append(out, [2]int{prev * 8, (c - prev) * 8})
		prev = c
	}
	out = append(out, [2]int{prev * 8, d.Len - prev*8})
	return out
}

func ipOptions(n int) []layers.IPv4Option {
	// n is a multiple of 4: one record-route style option of n-? bytes padded with NOPs
	var o []layers.IPv4Option
	for n >= 4 {
		if n >= 8 {
			o = append(o, layers.IPv4Option{OptionType: 7, OptionLength: 7, OptionData: []byte{4, 1, 2, 3, 4}}, layers.IPv4Option{OptionType: 1, OptionLength: 1})
			n -= 8
		} else {
			o = append(o, layers.IPv4Option{OptionType: 1, OptionLength: 1}, layers.IPv4Option{OptionType: 1, OptionLength: 1}, layers.IPv4Option{OptionType: 1, OptionLength: 1}, layers.IPv4Option{OptionType: 1, OptionLength: 1})
			n -= 4
		}
	}
	return o
}

var serOpts = gopacket.SerializeOptions{FixLengths: true, ComputeChecksums: true}

// mkV4 serialises and re-decodes a real IPv4 packet so Length/IHL/Payload are what users pass.
func mkV4(d *Datagram, off, size int, more, df, evil bool, optLen int, corrupt bool) (*layers.IPv4, error) {
	ip := &layers.IPv4{Version: 4, TTL: 64, Protocol: layers.IPProtocolUDP, Id: uint16(d.ID),
		SrcIP: d.srcV4(), DstIP: d.dstV4(),
		FragOffset: uint16(off / 8), Options: ipOptions(optLen)}
	if more {
		ip.Flags |= layers.IPv4MoreFragments
	}
	if df {
		ip.Flags |= layers.IPv4DontFragment
	}
	if evil {
		ip.Flags |= layers.IPv4EvilBit
	}
	buf := gopacket.NewSerializeBuffer()
	if err := gopacket.SerializeLayers(buf, serOpts, ip, gopacket.Payload(content(d, off, size, corrupt))); err != nil {
		return nil, err
	}
	p := gopacket.NewPacket(buf.Bytes(), layers.LayerTypeIPv4, gopacket.DecodeOptions{NoCopy: true})
	l, _ := p.Layer(layers.LayerTypeIPv4).(*layers.IPv4)
	if l == nil {
		return nil, fmt.Errorf("harness: fragment did not decode: %v", p.ErrorLayer())
	}
	return l, nil
}

type key struct {
	src, dst byte
	rev      bool
	id       uint32
}

func (d *Datagram) srcV4() net.IP {
	if d.Rev {
		return net.IPv4(10, 0, 1, d.Dst).To4()
	}
	return net.IPv4(10, 0, 0, d.Src).To4()
}

func (d *Datagram) dstV4() net.IP {
	if d.Rev {
		return net.IPv4(10, 0, 0, d.Src).To4()
	}
	return net.IPv4(10, 0, 1, d.Dst).To4()
}

type recv struct {
	off, size int
	last      bool
	corrupt   bool
	d         int
}

type kstate struct {
	got     map[int]bool // fragment indices received in this incarnation (benign)
	lastAny int64        // ts of last arrival incl. duplicates
	lastNew int64        // ts of last non-duplicate arrival
	active  bool
	unknown bool // discard decision was ambiguous: stop predicting this incarnation
	all     []recv
}

func runCase(c *Case) (f *vh.Failure) {
	pv, stack := vh.Recover(func() {
		if c.V6 {
			f = runV6(c)
		} else {
			f = runV4(c)
		}
	})
	if pv != nil {
		fn, where := vh.InnermostRepoFunc(stack)
		cls := "benign"
		if c.Hostile {
			cls = "hostile"
		}
		return vh.Failf("panic:"+fn+":"+cls, "panic %v at %s", pv, where)
	}
	return f
}

func classOf(d *Datagram, c *Case) string {
	fr := d.frags()
	lastOff := fr[len(fr)-1][0]
	if lastOff > 8183*8 {
		return "max-size"
	}
	return "any"
}

func runV4(c *Case) *vh.Failure {
	df := ip4defrag.NewIPv4Defragmenter()
	st := map[key]*kstate{}
	ks := func(d *Datagram) *kstate {
		k := key{d.Src, d.Dst, d.Rev, d.ID}
		if st[k] == nil {
			st[k] = &kstate{got: map[int]bool{}}
		}
		return st[k]
	}
	for i, op := range c.Ops {
		ts := time.Unix(1_000_000+op.Ts, 0)
		switch op.K {
		case "discard":
			n := df.DiscardOlderThan(ts)
			want, amb := 0, false
			for _, s := range st {
				if !s.active {
					continue
				}
				oldNew := 1_000_000+s.lastNew < ts.Unix()
				oldAny := 1_000_000+s.lastAny < ts.Unix()
				switch {
				case s.unknown:
					amb = true
				case oldNew && oldAny:
					want++
					s.active = false
					s.got = map[int]bool{}
				case !oldNew && !oldAny:
				default:
					amb = true
					s.unknown = true
				}
			}
			if !amb && !c.Hostile && n != want {
				return vh.Failf("ip4:discard-count:any", "op %d: DiscardOlderThan returned %d, model forgot %d partial datagrams", i, n, want)
			}
		case "whole", "df":
			d := &c.Datagrams[op.D]
			in, err := mkV4(d, 0, d.Len, false, op.K == "df", op.Evil, op.OptLen, false)
			if err != nil {
				return vh.Failf("harness", "%v", err)
			}
			snap := fmt.Sprintf("%v %v %v %v %x", in.Length, in.IHL, in.Flags, in.FragOffset, in.Payload)
			out, err := df.DefragIPv4WithTimestamp(in, ts)
			if err != nil || out != in {
				return vh.Failf("ip4:passthrough:any", "op %d: unfragmented packet not passed through (out==in: %v, err=%v)", i, out == in, err)
			}
			if snap != fmt.Sprintf("%v %v %v %v %x", out.Length, out.IHL, out.Flags, out.FragOffset, out.Payload) {
				return vh.Failf("ip4:passthrough-modified:any", "op %d: unfragmented packet was modified", i)
			}
		case "frag":
			d := &c.Datagrams[op.D]
			fr := d.frags()
			off, size, last := 0, 0, false
			if op.F < len(fr) {
				off, size = fr[op.F][0], fr[op.F][1]
				last = op.F == len(fr)-1
			}
			if op.Off != nil {
				off = *op.Off
			}
			if op.Size != nil {
				size = *op.Size
			}
			if op.Last != nil {
				last = *op.Last
			}
			if off+size+20+op.OptLen > 65535 && !c.Hostile {
				return vh.Failf("harness", "benign fragment too large")
			}
			in, err := mkV4(d, off, size, !last, false, op.Evil, op.OptLen, op.Corrupt)
			if err != nil {
				if c.Hostile {
					continue // cannot even be serialised (e.g. length > 65535): not an input
				}
				return vh.Failf("harness", "%v", err)
			}
			s := ks(d)
			s.all = append(s.all, recv{off, size, last, op.Corrupt, op.D})
			out, err := df.DefragIPv4WithTimestamp(in, ts)
			cls := classOf(d, c)
			if op.OptLen > 0 || d.OptLen > 0 {
				cls += ",options"
			}
			if c.Hostile {
				if out == nil {
					continue
				}
				if f := provenance(c, out, s, i); f != nil {
					return f
				}
				continue
			}
			// benign prediction
			dup := s.got[op.F]
			s.lastAny = op.Ts
			if !dup {
				s.lastNew = op.Ts
			}
			s.got[op.F] = true
			s.active = true
			complete := len(s.got) == len(fr)
			if s.unknown {
				// a DiscardOlderThan call fell between this key's last new and last duplicate fragment:
				// whether it was forgotten is not determined by the property, so from here on only the
				// content of anything returned for this key is judged (sticky for the rest of the case)
				if out != nil {
					if f := checkOut(out, d, i, cls); f != nil {
						return f
					}
				}
				continue
			}
			if !complete {
				if out != nil || err != nil {
					return vh.Failf("ip4:early:"+cls, "op %d (datagram %d frag %d, dup=%v): returned out=%v err=%v before all %d fragments arrived (have %d)", i, op.D, op.F, dup, out != nil, err, len(fr), len(s.got))
				}
				continue
			}
			if dup {
				// cannot happen: got is reset on completion
				return vh.Failf("harness", "model: duplicate completing")
			}
			if out == nil {
				return vh.Failf("ip4:missing:"+cls, "op %d: last missing fragment (datagram %d frag %d) arrived but nothing returned (err=%v)", i, op.D, op.F, err)
			}
			if f := checkOut(out, d, i, cls); f != nil {
				return f
			}
			s.got, s.active = map[int]bool{}, false
		}
	}
	return nil
}

func checkOut(out *layers.IPv4, d *Datagram, i int, cls string) *vh.Failure {
	want := content(d, 0, d.Len, false)
	if !bytes.Equal(out.Payload, want) {
		k := firstDiff(out.Payload, want)
		return vh.Failf("ip4:payload:"+cls, "op %d: reassembled payload differs from the original: len %d want %d, first difference at %d", i, len(out.Payload), len(want), k)
	}
	if out.Flags != 0 || out.FragOffset != 0 {
		return vh.Failf("ip4:fragfields:"+cls, "op %d: Flags=%v FragOffset=%d not cleared", i, out.Flags, out.FragOffset)
	}
	if int(out.Length) != int(out.IHL)*4+len(out.Payload) {
		return vh.Failf("ip4:length:"+cls, "op %d: Length=%d but IHL*4+len(payload)=%d+%d", i, out.Length, int(out.IHL)*4, len(out.Payload))
	}
	if out.Id != uint16(d.ID) || !out.SrcIP.Equal(d.srcV4()) || !out.DstIP.Equal(d.dstV4()) || out.Protocol != layers.IPProtocolUDP || out.Version != 4 {
		return vh.Failf("ip4:header:"+cls, "op %d: header fields of the reassembled datagram are wrong: id=%d src=%v dst=%v proto=%v", i, out.Id, out.SrcIP, out.DstIP, out.Protocol)
	}
	return nil
}

func firstDiff(a, b []byte) int {
	n := min(len(a), len(b))
	for i := 0; i < n; i++ {
		if a[i] != b[i] {
			return i
		}
	}
	return n
}

// provenance: every byte of a returned datagram was placed at that offset by some received fragment
// of the key (hence no hole).
func provenance(c *Case, out *layers.IPv4, s *kstate, i int) *vh.Failure {
	L := len(out.Payload)
	endOK := false
	for _, r := range s.all {
		if r.last && r.off+r.size == L {
			endOK = true
		}
	}
	if !endOK {
		// not judged: the property only demands byte provenance for sets that are returned at all
		S.Class("hostile-returned-length-differs-from-final-fragment-end", 1)
	}
	for p := 0; p < L; p++ {
		ok := false
		for _, r := range s.all {
			if p >= r.off && p < r.off+r.size {
				if content(&c.Datagrams[r.d], p, 1, r.corrupt)[0] == out.Payload[p] {
					ok = true
					break
				}
			}
		}
		if !ok {
			return vh.Failf("ip4:hostile-provenance", "op %d: byte %d (%#x) of the returned datagram was not placed there by any received fragment", i, p, out.Payload[p])
		}
	}
	if int(out.Length) != int(out.IHL)*4+len(out.Payload) {
		return vh.Failf("ip4:length:hostile", "op %d: Length=%d but IHL*4+len(payload)=%d", i, out.Length, int(out.IHL)*4+len(out.Payload))
	}
	return nil
}

// ---------- IPv6 ----------

func mkV6(d *Datagram, off, size int, more bool) (*layers.IPv6, *layers.IPv6Fragment, error) {
	ip := &layers.IPv6{Version: 6, HopLimit: 64, NextHeader: layers.IPProtocolIPv6Fragment, FlowLabel: 7,
		SrcIP: net.ParseIP("fd00::1"), DstIP: net.ParseIP("fd00::2")}
	ip.SrcIP[15], ip.DstIP[15] = d.Src, d.Dst+8
	if d.Rev {
		ip.SrcIP, ip.DstIP = ip.DstIP, ip.SrcIP
	}
	// fragment header written by hand (IPv6Fragment has no serializer): next header, reserved, offset/flags, id
	fh := []byte{byte(layers.IPProtocolUDP), 0, byte(off / 8 >> 5), byte(off/8<<3) & 0xf8, byte(d.ID >> 24), byte(d.ID >> 16), byte(d.ID >> 8), byte(d.ID)}
	if more {
		fh[3] |= 1
	}
	buf := gopacket.NewSerializeBuffer()
	if err := gopacket.SerializeLayers(buf, serOpts, ip, gopacket.Payload(append(fh, content(d, off, size, false)...))); err != nil {
		return nil, nil, err
	}
	p := gopacket.NewPacket(buf.Bytes(), layers.LayerTypeIPv6, gopacket.DecodeOptions{NoCopy: true})
	l, _ := p.Layer(layers.LayerTypeIPv6).(*layers.IPv6)
	fl, _ := p.Layer(layers.LayerTypeIPv6Fragment).(*layers.IPv6Fragment)
	if l == nil || fl == nil {
		return nil, nil, fmt.Errorf("harness: v6 fragment did not decode: %v", p)
	}
	if int(fl.FragmentOffset)*8 != off || fl.MoreFragments != more || fl.Identification != d.ID {
		return nil, nil, fmt.Errorf("harness: v6 fragment header mismatch: %+v", fl)
	}
	return l, fl, nil
}

func runV6(c *Case) *vh.Failure {
	df := ip6defrag.NewIPv6Defragmenter()
	got := map[int]map[int]bool{}
	done := map[int]bool{}
	for i, op := range c.Ops {
		if op.K != "frag" {
			continue
		}
		d := &c.Datagrams[op.D]
		fr := d.frags()
		off, size := fr[op.F][0], fr[op.F][1]
		ip, fl, err := mkV6(d, off, size, op.F != len(fr)-1)
		if err != nil {
			return vh.Failf("harness", "%v", err)
		}
		out := df.DefragIPv6(ip, fl)
		if got[op.D] == nil {
			got[op.D] = map[int]bool{}
		}
		got[op.D][op.F] = true
		complete := len(got[op.D]) == len(fr)
		if out != nil {
			if !complete {
				return vh.Failf("ip6:early", "op %d: datagram returned with %d of %d fragments", i, len(got[op.D]), len(fr))
			}
			if !bytes.Equal(out.Payload, content(d, 0, d.Len, false)) {
				return vh.Failf("ip6:payload", "op %d: reassembled payload differs (len %d want %d, first diff %d)", i, len(out.Payload), d.Len, firstDiff(out.Payload, content(d, 0, d.Len, false)))
			}
			if out.NextHeader != layers.IPProtocolUDP || !out.SrcIP.Equal(ip.SrcIP) || !out.DstIP.Equal(ip.DstIP) {
				return vh.Failf("ip6:header", "op %d: header of reassembled datagram wrong: nh=%v", i, out.NextHeader)
			}
			done[op.D] = true
		} else if complete && !done[op.D] {
			return vh.Failf("ip6:missing", "op %d: all %d fragments of datagram %d arrived but nothing returned", i, len(fr), op.D)
		}
	}
	return nil
}

// ---------- generators ----------

func genDatagram(t *rapid.T, idx int, v6 bool, maxFrags int, prev []Datagram) Datagram {
	d := Datagram{Src: byte(rapid.IntRange(1, 3).Draw(t, "src")), Dst: byte(rapid.IntRange(1, 2).Draw(t, "dst")), Salt: byte(idx*37 + 11)}
	d.ID = uint32(rapid.IntRange(0, 3).Draw(t, "id"))*1000 + uint32(idx) // distinct per datagram, sometimes close
	if v6 {
		d.ID |= uint32(rapid.IntRange(0, 1).Draw(t, "idhi")) << 20
	}
	if len(prev) > 0 && rapid.IntRange(0, 2).Draw(t, "nearkey") == 0 {
		// same identification as an earlier datagram, the key differs in exactly one other component:
		// the reverse direction of the same address pair, another source, or another destination
		o := prev[rapid.IntRange(0, len(prev)-1).Draw(t, "nearof")]
		n := Datagram{ID: o.ID, Src: o.Src, Dst: o.Dst, Rev: o.Rev, Salt: d.Salt}
		switch rapid.IntRange(0, 2).Draw(t, "nearkind") {
		case 0:
			n.Rev = !o.Rev
		case 1:
			n.Src = o.Src%3 + 1
		default:
			n.Dst = o.Dst%2 + 1
		}
		clash := false
		for _, q := range prev {
			if q.ID == n.ID && q.Src == n.Src && q.Dst == n.Dst && q.Rev == n.Rev {
				clash = true
			}
		}
		if !clash {
			d = n
		}
	}
	switch rapid.IntRange(0, 9).Draw(t, "lenkind") {
	case 0:
		d.Len = rapid.IntRange(65000, 65515).Draw(t, "len")
	case 1:
		d.Len = rapid.IntRange(9, 65515).Draw(t, "len")
	case 2, 3:
		d.Len = rapid.IntRange(1400, 9000).Draw(t, "len")
	default:
		d.Len = rapid.IntRange(9, 400).Draw(t, "len")
	}
	if !v6 && rapid.IntRange(0, 2).Draw(t, "hasopt") == 0 {
		d.OptLen = 4 * rapid.IntRange(1, 10).Draw(t, "optwords")
	}
	if d.Len+20+d.OptLen > 65535 {
		d.Len = 65535 - 20 - d.OptLen
	}
	units := (d.Len + 7) / 8
	k := rapid.IntRange(2, min(maxFrags, units)).Draw(t, "nfrags")
	set := map[int]bool{}
	for len(set) < k-1 {
		var cpt int
		if rapid.IntRange(0, 3).Draw(t, "cutkind") == 0 && units > 3 {
			cpt = rapid.SampledFrom([]int{1, units - 1, units / 2}).Draw(t, "cut")
		} else {
			cpt = rapid.IntRange(1, units-1).Draw(t, "cut")
		}
		set[cpt] = true
	}
	for cpt := range set {
		d.Cuts = append(d.Cuts, cpt)
	}
	sort.Ints(d.Cuts)
	return d
}

func genCase(t *rapid.T) *Case {
	c := &Case{}
	mode := rapid.IntRange(0, 9).Draw(t, "mode")
	c.V6 = mode == 0 || mode == 1
	c.Hostile = mode == 2 || mode == 3
	nd := rapid.IntRange(1, 4).Draw(t, "ndatagrams")
	for i := 0; i < nd; i++ {
		c.Datagrams = append(c.Datagrams, genDatagram(t, i, c.V6, 40, c.Datagrams))
	}
	// per-datagram arrival lists (permutation + duplicates), then interleave
	var queues [][]Op
	for di := range c.Datagrams {
		d := &c.Datagrams[di]
		n := len(d.frags())
		perm := rapid.Permutation(seq(n)).Draw(t, "perm")
		if rapid.IntRange(0, 3).Draw(t, "inorder") == 0 {
			perm = seq(n)
		}
		var q []Op
		sameOpts := rapid.Bool().Draw(t, "sameopts")
		for _, fi := range perm {
			o := Op{K: "frag", D: di, F: fi}
			if fi == 0 || sameOpts {
				o.OptLen = d.OptLen
			} else if d.OptLen > 0 {
				o.OptLen = 4 * rapid.IntRange(0, d.OptLen/4).Draw(t, "fragopt")
			}
			q = append(q, o)
		}
		ndup := rapid.IntRange(0, 3).Draw(t, "ndup")
		for j := 0; j < ndup; j++ {
			src := q[rapid.IntRange(0, len(q)-1).Draw(t, "dupsrc")]
			at := rapid.IntRange(0, len(q)).Draw(t, "dupat")
			q = append(q[:at], append([]Op{src}, q[at:]...)...)
		}
		if c.Hostile {
			nh := rapid.IntRange(1, 4).Draw(t, "nhostile")
			for j := 0; j < nh; j++ {
				o := Op{K: "frag", D: di, F: 0, Corrupt: rapid.Bool().Draw(t, "corrupt")}
				off := 8 * rapid.IntRange(0, min(8191, (d.Len+64)/8)).Draw(t, "hoff")
				if rapid.IntRange(0, 5).Draw(t, "faroff") == 0 {
					off = 8 * rapid.IntRange(8100, 8191).Draw(t, "hoff2")
				}
				size := rapid.SampledFrom([]int{0, 1, 7, 8, 9, 16, 24, 64, 1480}).Draw(t, "hsize")
				if rapid.IntRange(0, 6).Draw(t, "huge") == 0 {
					size = rapid.IntRange(60000, 65515).Draw(t, "hsize2")
				}
				last := rapid.Bool().Draw(t, "hlast")
				o.Off, o.Size, o.Last = &off, &size, &last
				at := rapid.IntRange(0, len(q)).Draw(t, "hat")
				q = append(q[:at], append([]Op{o}, q[at:]...)...)
			}
		}
		queues = append(queues, q)
	}
	ts := int64(0)
	for {
		var live []int
		for i, q := range queues {
			if len(q) > 0 {
				live = append(live, i)
			}
		}
		if len(live) == 0 {
			break
		}
		qi := live[rapid.IntRange(0, len(live)-1).Draw(t, "pick")]
		op := queues[qi][0]
		queues[qi] = queues[qi][1:]
		ts += int64(rapid.IntRange(0, 3).Draw(t, "dt"))
		op.Ts = ts
		c.Ops = append(c.Ops, op)
		if !c.V6 {
			switch rapid.IntRange(0, 14).Draw(t, "extra") {
			case 0:
				c.Ops = append(c.Ops, Op{K: "discard", Ts: ts - int64(rapid.IntRange(-1, 6).Draw(t, "cutoff"))})
			case 1:
				c.Ops = append(c.Ops, Op{K: "whole", D: qi, Ts: ts, OptLen: c.Datagrams[qi].OptLen, Evil: rapid.IntRange(0, 2).Draw(t, "evilwhole") == 0})
			case 2:
				c.Ops = append(c.Ops, Op{K: "df", D: qi, Ts: ts, Evil: rapid.IntRange(0, 2).Draw(t, "evildf") == 0})
			}
		}
	}
	return c
}

func seq(n int) []int {
	s := make([]int, n)
	for i := range s {
		s[i] = i
	}
	return s
}

func classify(c *Case) (bool, []string) {
	var cls []string
	nt := false
	fam := "v4"
	if c.V6 {
		fam = "v6"
	}
	if c.Hostile {
		fam = "v4-hostile"
	}
	cls = append(cls, fam)
	seen := map[[2]int]bool{}
	lastF := map[int]int{}
	ooo, dup, opts, disc := false, false, false, false
	prevD := -1
	inter := false
	for _, op := range c.Ops {
		switch op.K {
		case "frag":
			if op.Off == nil {
				if seen[[2]int{op.D, op.F}] {
					dup = true
				}
				seen[[2]int{op.D, op.F}] = true
				if lf, ok := lastF[op.D]; ok && op.F < lf {
					ooo = true
				}
				lastF[op.D] = op.F
			}
			if op.OptLen > 0 {
				opts = true
			}
			if prevD >= 0 && prevD != op.D {
				inter = true
			}
			prevD = op.D
		case "discard":
			disc = true
		}
	}
	for i := range c.Datagrams {
		if len(c.Datagrams[i].frags()) >= 3 && ooo {
			nt = true
		}
		if !c.V6 && classOf(&c.Datagrams[i], c) == "max-size" {
			cls = append(cls, "max-size")
		}
	}
	if c.Hostile {
		nt = true
	}
	for name, b := range map[string]bool{"out-of-order": ooo, "duplicate": dup, "options": opts, "discard": disc, "interleaved": inter} {
		if b {
			cls = append(cls, name)
		}
	}
	sort.Strings(cls)
	return nt, cls
}

func TestDefrag(t *testing.T) {
	rapid.Check(t, func(rt *rapid.T) {
		c := genCase(rt)
		nt, cls := classify(c)
		js, _ := json.Marshal(c)
		S.Note(vh.Hash64(js), nt, cls...)
		if nt && len(js) < 1500 && S.WantSample() {
			S.Sample(c)
		}
		S.Check(rt, "TestDefrag", c, runCase(c))
	})
}

// TestPermutations: every arrival order of every 8-byte-aligned partition (<= 5 fragments) of a 40-byte payload
// (quick) / 6 fragments of 48 bytes (thorough), with and without options.
func TestPermutations(t *testing.T) {
	units, maxFr := 5, 5
	if vh.Thorough() {
		units, maxFr = 6, 6
	}
	total := int64(0)
	for _, v6 := range []bool{false, true} {
		for _, opt := range []int{0, 8} {
			if v6 && opt > 0 {
				continue
			}
			for mask := 1; mask < 1<<(units-1); mask++ {
				var cuts []int
				for b := 0; b < units-1; b++ {
					if mask>>b&1 == 1 {
						cuts = append(cuts, b+1)
					}
				}
				if len(cuts)+1 > maxFr {
					continue
				}
				d := Datagram{ID: 77, Src: 1, Dst: 1, Len: units*8 - 3, Salt: 5, OptLen: opt, Cuts: cuts}
				n := len(cuts) + 1
				permute(seq(n), func(p []int) {
					c := &Case{V6: v6, Datagrams: []Datagram{d}}
					for _, fi := range p {
						c.Ops = append(c.Ops, Op{K: "frag", D: 0, F: fi, OptLen: opt})
					}
					total++
					nt, cls := classify(c)
					S.Note(vh.Hash64(fmt.Sprint(v6, opt, cuts, p)), nt, append(cls, "exhaustive-permutation")...)
					S.Check(t, "TestDefrag", c, runCase(c))
				})
				if t.Failed() {
					return
				}
			}
		}
	}
	S.Extra("exhaustive_permutations_total", total)
}

func permute(a []int, f func([]int)) {
	var rec func(int)
	rec = func(k int) {
		if k == len(a) {
			f(append([]int(nil), a...))
			return
		}
		for i := k; i < len(a); i++ {
			a[k], a[i] = a[i], a[k]
			rec(k + 1)
			a[k], a[i] = a[i], a[k]
		}
	}
	rec(0)
}

func TestRegress(t *testing.T) {
	S.Regress(t, func(rf *vh.ReplayFile) (bool, *vh.Failure) {
		var c Case
		if err := json.Unmarshal(rf.Case, &c); err != nil {
			t.Fatal(err)
		}
		return true, runCase(&c)
	})
}
