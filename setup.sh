#!/bin/sh
# Offline setup: warms the Go build cache for the harness (and the race runtime) so quick checks
# do not pay the first std build. Builds from files on disk only.
set -e
cd "$(dirname "$0")/harness"
export GOFLAGS=-mod=mod GOPROXY=off GOTOOLCHAIN=auto
unset GOSUMDB || true
go build ./internal/... 
go vet ./internal/... >/dev/null 2>&1 || true
# compile (not run) every test package; failures here are reported but do not abort setup of the others
for d in */; do
  p=${d%/}
  if ls $p/*_test.go >/dev/null 2>&1; then
    go test -c -tags verif -vet=off -o /dev/null ./$p || echo "setup: build of $p failed" >&2
  fi
done
# race runtime warm-up
for p in $(cat ../plans/race_pkgs.txt 2>/dev/null); do
  go test -c -race -tags verif -vet=off -o /dev/null ./$p || echo "setup: race build of $p failed" >&2
done
echo setup done
